package interp

// Symbolic terms: hash-consed bit-vector / boolean expressions with Go's
// wrap-around semantics, an SMT-LIB2 printer and a concrete evaluator.

import (
	"fmt"
	"go/token"
	"go/types"
	"strconv"
	"strings"
)

type termOp uint8

const (
	opConst termOp = iota
	opVar
	opNot
	opAnd
	opOr
	opEq
	opIte
	opBvNot
	opBvNeg
	opBvAnd
	opBvOr
	opBvXor
	opBvAdd
	opBvSub
	opBvMul
	opBvUdiv
	opBvSdiv
	opBvUrem
	opBvSrem
	opBvShl
	opBvLshr
	opBvAshr
	opBvUlt
	opBvUle
	opBvSlt
	opBvSle
	opExtract // a[0] bits [hi:0], hi = w-1
	opZext
	opSext
)

var opNames = [...]string{
	opNot: "not", opAnd: "and", opOr: "or", opEq: "=", opIte: "ite",
	opBvNot: "bvnot", opBvNeg: "bvneg", opBvAnd: "bvand", opBvOr: "bvor", opBvXor: "bvxor",
	opBvAdd: "bvadd", opBvSub: "bvsub", opBvMul: "bvmul", opBvUdiv: "bvudiv", opBvSdiv: "bvsdiv",
	opBvUrem: "bvurem", opBvSrem: "bvsrem", opBvShl: "bvshl", opBvLshr: "bvlshr", opBvAshr: "bvashr",
	opBvUlt: "bvult", opBvUle: "bvule", opBvSlt: "bvslt", opBvSle: "bvsle",
}

// term is an immutable, hash-consed expression. w == 0 means Bool.
type term struct {
	id   int
	op   termOp
	w    int
	c    uint64 // constant value (opConst) / variable index (opVar)
	a    []*term
	vars uint64 // bitmask of variable indices (bit 63 = "64 or above")
	s    string // cached SMT-LIB text
	sz   int32  // tree size (saturating): decides whether the solver gets the term by name (define-fun) or inline
}

type symTable struct {
	terms    map[string]*term
	nextID   int
	varNames []string
	varWidth []int
}

var symtab = &symTable{terms: map[string]*term{}}

func mask(w int) uint64 {
	if w >= 64 {
		return ^uint64(0)
	}
	return (uint64(1) << uint(w)) - 1
}

func intern(op termOp, w int, c uint64, a ...*term) *term {
	var sb strings.Builder
	sb.WriteByte(byte(op))
	sb.WriteString(strconv.Itoa(w))
	sb.WriteByte(':')
	if op == opConst || op == opVar {
		sb.WriteString(strconv.FormatUint(c, 16))
	}
	for _, x := range a {
		sb.WriteByte(',')
		sb.WriteString(strconv.Itoa(x.id))
	}
	k := sb.String()
	if t, ok := symtab.terms[k]; ok {
		return t
	}
	t := &term{id: symtab.nextID, op: op, w: w, c: c, a: append([]*term(nil), a...)}
	symtab.nextID++
	t.sz = 1
	for _, x := range a {
		t.vars |= x.vars
		if t.sz < 1<<24 {
			t.sz += x.sz
		}
	}
	if op == opVar {
		if c >= 63 {
			t.vars = 1 << 63
		} else {
			t.vars = 1 << c
		}
	}
	symtab.terms[k] = t
	return t
}

func newVar(name string, w int) *term {
	for i, n := range symtab.varNames {
		if n == name {
			if symtab.varWidth[i] != w {
				panic("symbolic variable " + name + " redeclared with different width")
			}
			return intern(opVar, w, uint64(i))
		}
	}
	symtab.varNames = append(symtab.varNames, name)
	symtab.varWidth = append(symtab.varWidth, w)
	return intern(opVar, w, uint64(len(symtab.varNames)-1))
}

func kconst(c uint64, w int) *term { return intern(opConst, w, c&mask(w)) }
func kbool(b bool) *term {
	if b {
		return intern(opConst, 0, 1)
	}
	return intern(opConst, 0, 0)
}

func (t *term) isConst() bool { return t.op == opConst }
func (t *term) isTrue() bool  { return t.op == opConst && t.w == 0 && t.c == 1 }
func (t *term) isFalse() bool { return t.op == opConst && t.w == 0 && t.c == 0 }

func sext64(v uint64, w int) int64 {
	if w >= 64 {
		return int64(v)
	}
	s := uint(64 - w)
	return int64(v<<s) >> s
}

// evalOp computes op on concrete arguments.
func evalOp(op termOp, w int, aw int, v []uint64) uint64 {
	m := mask(w)
	switch op {
	case opNot:
		return v[0] ^ 1
	case opAnd:
		r := uint64(1)
		for _, x := range v {
			r &= x
		}
		return r
	case opOr:
		r := uint64(0)
		for _, x := range v {
			r |= x
		}
		return r
	case opEq:
		if v[0] == v[1] {
			return 1
		}
		return 0
	case opIte:
		if v[0] != 0 {
			return v[1]
		}
		return v[2]
	case opBvNot:
		return ^v[0] & m
	case opBvNeg:
		return (-v[0]) & m
	case opBvAnd:
		return v[0] & v[1]
	case opBvOr:
		return v[0] | v[1]
	case opBvXor:
		return v[0] ^ v[1]
	case opBvAdd:
		return (v[0] + v[1]) & m
	case opBvSub:
		return (v[0] - v[1]) & m
	case opBvMul:
		return (v[0] * v[1]) & m
	case opBvUdiv:
		if v[1] == 0 {
			return m
		}
		return v[0] / v[1]
	case opBvUrem:
		if v[1] == 0 {
			return v[0]
		}
		return v[0] % v[1]
	case opBvSdiv:
		x, y := sext64(v[0], w), sext64(v[1], w)
		if y == 0 {
			if x >= 0 {
				return m
			}
			return 1
		}
		if y == -1 {
			return uint64(-x) & m
		}
		return uint64(x/y) & m
	case opBvSrem:
		x, y := sext64(v[0], w), sext64(v[1], w)
		if y == 0 {
			return v[0]
		}
		if y == -1 {
			return 0
		}
		return uint64(x%y) & m
	case opBvShl:
		if v[1] >= uint64(w) {
			return 0
		}
		return (v[0] << v[1]) & m
	case opBvLshr:
		if v[1] >= uint64(w) {
			return 0
		}
		return v[0] >> v[1]
	case opBvAshr:
		x := sext64(v[0], w)
		if v[1] >= uint64(w) {
			if x < 0 {
				return m
			}
			return 0
		}
		return uint64(x>>v[1]) & m
	case opBvUlt:
		return b2u(v[0] < v[1])
	case opBvUle:
		return b2u(v[0] <= v[1])
	case opBvSlt:
		return b2u(sext64(v[0], aw) < sext64(v[1], aw))
	case opBvSle:
		return b2u(sext64(v[0], aw) <= sext64(v[1], aw))
	case opExtract:
		return v[0] & m
	case opZext:
		return v[0]
	case opSext:
		return uint64(sext64(v[0], aw)) & m
	}
	panic("evalOp: bad op")
}

func b2u(b bool) uint64 {
	if b {
		return 1
	}
	return 0
}

// mk builds a term with light simplification (constant folding, identities).
func mk(op termOp, w int, a ...*term) *term {
	if len(a) == 0 {
		switch op {
		case opAnd:
			return kbool(true)
		case opOr:
			return kbool(false)
		}
		panic("mk: no arguments")
	}
	allc := true
	for _, x := range a {
		if !x.isConst() {
			allc = false
			break
		}
	}
	if allc {
		v := make([]uint64, len(a))
		for i, x := range a {
			v[i] = x.c
		}
		return intern(opConst, w, evalOp(op, w, a[0].w, v)&maskb(w))
	}
	switch op {
	case opNot:
		if a[0].op == opNot {
			return a[0].a[0]
		}
	case opAnd:
		var out []*term
		for _, x := range a {
			if x.isFalse() {
				return x
			}
			if x.isTrue() {
				continue
			}
			if x.op == opAnd {
				out = append(out, x.a...)
			} else {
				out = append(out, x)
			}
		}
		if len(out) == 0 {
			return kbool(true)
		}
		if len(out) == 1 {
			return out[0]
		}
		a = out
	case opOr:
		var out []*term
		for _, x := range a {
			if x.isTrue() {
				return x
			}
			if x.isFalse() {
				continue
			}
			if x.op == opOr {
				out = append(out, x.a...)
			} else {
				out = append(out, x)
			}
		}
		if len(out) == 0 {
			return kbool(false)
		}
		if len(out) == 1 {
			return out[0]
		}
		a = out
	case opEq:
		if a[0] == a[1] {
			return kbool(true)
		}
		if a[0].w == 0 {
			// boolean equality with a constant
			if a[1].isConst() {
				if a[1].c == 1 {
					return a[0]
				}
				return mk(opNot, 0, a[0])
			}
			if a[0].isConst() {
				if a[0].c == 1 {
					return a[1]
				}
				return mk(opNot, 0, a[1])
			}
		}
		// (= (zext x) const) with const fitting: compare narrow
		for i := 0; i < 2; i++ {
			x, k := a[i], a[1-i]
			if x.op == opZext && k.isConst() {
				nw := x.a[0].w
				if k.c&^mask(nw) != 0 {
					return kbool(false)
				}
				return mk(opEq, 0, x.a[0], kconst(k.c, nw))
			}
		}
	case opIte:
		if a[0].isTrue() {
			return a[1]
		}
		if a[0].isFalse() {
			return a[2]
		}
		if a[1] == a[2] {
			return a[1]
		}
	case opBvAnd:
		if a[0].isConst() && a[0].c == 0 || a[1].isConst() && a[1].c == 0 {
			return kconst(0, w)
		}
		if a[1].isConst() && a[1].c == mask(w) {
			return a[0]
		}
		if a[0].isConst() && a[0].c == mask(w) {
			return a[1]
		}
	case opBvOr, opBvXor, opBvAdd:
		if a[1].isConst() && a[1].c == 0 {
			return a[0]
		}
		if a[0].isConst() && a[0].c == 0 {
			return a[1]
		}
	case opBvSub, opBvShl, opBvLshr, opBvAshr:
		if a[1].isConst() && a[1].c == 0 {
			return a[0]
		}
	case opBvMul:
		if a[1].isConst() && a[1].c == 1 {
			return a[0]
		}
		if a[0].isConst() && a[0].c == 1 {
			return a[1]
		}
		if a[0].isConst() && a[0].c == 0 || a[1].isConst() && a[1].c == 0 {
			return kconst(0, w)
		}
	case opBvUlt, opBvUle:
		// comparisons of a zero-extended narrow value against a constant
		x, k := a[0], a[1]
		// trivial bounds: 0 <= x, x <= max, x < 0, max < x
		if op == opBvUle && (x.isConst() && x.c == 0 || k.isConst() && k.c == mask(k.w)) {
			return kbool(true)
		}
		if op == opBvUlt && (k.isConst() && k.c == 0 || x.isConst() && x.c == mask(x.w)) {
			return kbool(false)
		}
		if x.op == opZext && k.isConst() {
			nw := x.a[0].w
			if k.c > mask(nw) {
				return kbool(true)
			}
			return mk(op, 0, x.a[0], kconst(k.c, nw))
		}
		if k.op == opZext && x.isConst() {
			nw := k.a[0].w
			if x.c > mask(nw) {
				return kbool(false)
			}
			return mk(op, 0, kconst(x.c, nw), k.a[0])
		}
	case opBvSlt, opBvSle:
		// signed compare of zero-extended (hence non-negative) value vs constant
		x, k := a[0], a[1]
		aw := x.w
		if x.op == opZext && k.isConst() {
			nw := x.a[0].w
			kv := sext64(k.c, aw)
			if kv < 0 {
				return kbool(false)
			}
			if uint64(kv) > mask(nw) {
				return kbool(true)
			}
			uop := opBvUlt
			if op == opBvSle {
				uop = opBvUle
			}
			return mk(uop, 0, x.a[0], kconst(uint64(kv), nw))
		}
		if k.op == opZext && x.isConst() {
			nw := k.a[0].w
			xv := sext64(x.c, aw)
			if xv < 0 {
				return kbool(true)
			}
			if uint64(xv) > mask(nw) {
				return kbool(false)
			}
			uop := opBvUlt
			if op == opBvSle {
				uop = opBvUle
			}
			return mk(uop, 0, kconst(uint64(xv), nw), k.a[0])
		}
	case opExtract:
		if a[0].w == w {
			return a[0]
		}
		if (a[0].op == opZext || a[0].op == opSext) && a[0].a[0].w >= w {
			return mk(opExtract, w, a[0].a[0])
		}
	case opZext:
		if a[0].w == w {
			return a[0]
		}
		if a[0].op == opZext {
			return mk(opZext, w, a[0].a[0])
		}
	case opSext:
		if a[0].w == w {
			return a[0]
		}
		if a[0].op == opZext {
			return mk(opZext, w, a[0].a[0])
		}
	}
	return intern(op, w, 0, a...)
}

func maskb(w int) uint64 {
	if w == 0 {
		return 1
	}
	return mask(w)
}

func tnot(a *term) *term       { return mk(opNot, 0, a) }
func tand(a ...*term) *term    { return mk(opAnd, 0, a...) }
func tor(a ...*term) *term     { return mk(opOr, 0, a...) }
func teq(a, b *term) *term     { return mk(opEq, 0, a, b) }
func tite(c, a, b *term) *term { return mk(opIte, a.w, c, a, b) }
func tule(a, b *term) *term    { return mk(opBvUle, 0, a, b) }
func tult(a, b *term) *term    { return mk(opBvUlt, 0, a, b) }
func tinrange(x *term, lo, hi uint64) *term {
	if lo == hi {
		return teq(x, kconst(lo, x.w))
	}
	var cs []*term
	if lo > 0 {
		cs = append(cs, tule(kconst(lo, x.w), x))
	}
	if hi < mask(x.w) {
		cs = append(cs, tule(x, kconst(hi, x.w)))
	}
	return tand(cs...)
}

// SMT-LIB2 text.
func (t *term) String() string {
	if t.s != "" {
		return t.s
	}
	var s string
	switch t.op {
	case opConst:
		if t.w == 0 {
			if t.c != 0 {
				s = "true"
			} else {
				s = "false"
			}
		} else {
			s = fmt.Sprintf("(_ bv%d %d)", t.c, t.w)
		}
	case opVar:
		s = symtab.varNames[t.c]
	case opExtract:
		s = fmt.Sprintf("((_ extract %d 0) %s)", t.w-1, t.a[0])
	case opZext:
		s = fmt.Sprintf("((_ zero_extend %d) %s)", t.w-t.a[0].w, t.a[0])
	case opSext:
		s = fmt.Sprintf("((_ sign_extend %d) %s)", t.w-t.a[0].w, t.a[0])
	default:
		parts := make([]string, len(t.a))
		for i, x := range t.a {
			parts[i] = x.String()
		}
		s = "(" + opNames[t.op] + " " + strings.Join(parts, " ") + ")"
	}
	if len(s) < 4096 {
		t.s = s
	}
	return s
}

// render prints t with its children printed by sub (the solver back end passes a function that names large shared
// subterms once, so that the text sent per query stays proportional to the DAG, not the tree).
func (t *term) render(sub func(*term) string) string {
	switch t.op {
	case opConst, opVar:
		return t.String()
	case opExtract:
		return fmt.Sprintf("((_ extract %d 0) %s)", t.w-1, sub(t.a[0]))
	case opZext:
		return fmt.Sprintf("((_ zero_extend %d) %s)", t.w-t.a[0].w, sub(t.a[0]))
	case opSext:
		return fmt.Sprintf("((_ sign_extend %d) %s)", t.w-t.a[0].w, sub(t.a[0]))
	}
	parts := make([]string, len(t.a))
	for i, x := range t.a {
		parts[i] = sub(x)
	}
	return "(" + opNames[t.op] + " " + strings.Join(parts, " ") + ")"
}

// eval computes t under model m (one value per variable index).
func (t *term) eval(m []uint64) uint64 {
	switch t.op {
	case opConst:
		return t.c
	case opVar:
		if int(t.c) < len(m) {
			return m[t.c] & maskb(t.w)
		}
		return 0
	case opAnd:
		for _, x := range t.a {
			if x.eval(m) == 0 {
				return 0
			}
		}
		return 1
	case opOr:
		for _, x := range t.a {
			if x.eval(m) != 0 {
				return 1
			}
		}
		return 0
	case opIte:
		if t.a[0].eval(m) != 0 {
			return t.a[1].eval(m)
		}
		return t.a[2].eval(m)
	}
	var buf [3]uint64
	v := buf[:len(t.a)]
	for i, x := range t.a {
		v[i] = x.eval(m)
	}
	return evalOp(t.op, t.w, t.a[0].w, v) & maskb(t.w)
}

// ---------------------------------------------------------------------------
// Symbolic interpreter values.

// symv is a symbolic scalar of Go basic kind k (bool or an integer kind).
type symv struct {
	t *term
	k types.BasicKind
}

func isSym(v value) bool { _, ok := v.(symv); return ok }

func kindInfo(k types.BasicKind) (w int, signed bool) {
	switch k {
	case types.Bool, types.UntypedBool:
		return 0, false
	case types.Int8:
		return 8, true
	case types.Int16:
		return 16, true
	case types.Int32, types.UntypedRune:
		return 32, true
	case types.Int, types.Int64, types.UntypedInt:
		return 64, true
	case types.Uint8:
		return 8, false
	case types.Uint16:
		return 16, false
	case types.Uint32:
		return 32, false
	case types.Uint, types.Uint64, types.Uintptr:
		return 64, false
	}
	return -1, false
}

func basicKindOf(t types.Type) (types.BasicKind, bool) {
	b, ok := t.Underlying().(*types.Basic)
	if !ok {
		return 0, false
	}
	k := b.Kind()
	switch k {
	case types.UntypedBool:
		k = types.Bool
	case types.UntypedInt:
		k = types.Int
	case types.UntypedRune:
		k = types.Int32
	}
	if w, _ := kindInfo(k); w < 0 {
		return 0, false
	}
	return k, true
}

func kindOfValue(v value) (types.BasicKind, bool) {
	switch x := v.(type) {
	case symv:
		return x.k, true
	case bool:
		return types.Bool, true
	case int:
		return types.Int, true
	case int8:
		return types.Int8, true
	case int16:
		return types.Int16, true
	case int32:
		return types.Int32, true
	case int64:
		return types.Int64, true
	case uint:
		return types.Uint, true
	case uint8:
		return types.Uint8, true
	case uint16:
		return types.Uint16, true
	case uint32:
		return types.Uint32, true
	case uint64:
		return types.Uint64, true
	case uintptr:
		return types.Uintptr, true
	}
	return 0, false
}

// mkConc builds the concrete interpreter value of kind k with bit pattern c.
func mkConc(k types.BasicKind, c uint64) value {
	switch k {
	case types.Bool:
		return c != 0
	case types.Int:
		return int(c)
	case types.Int8:
		return int8(c)
	case types.Int16:
		return int16(c)
	case types.Int32:
		return int32(c)
	case types.Int64:
		return int64(c)
	case types.Uint:
		return uint(c)
	case types.Uint8:
		return uint8(c)
	case types.Uint16:
		return uint16(c)
	case types.Uint32:
		return uint32(c)
	case types.Uint64:
		return c
	case types.Uintptr:
		return uintptr(c)
	}
	panic(fmt.Sprintf("mkConc: kind %v", k))
}

// wrapTerm returns t as an interpreter value: concrete if t is constant.
func wrapTerm(t *term, k types.BasicKind) value {
	if t.isConst() {
		return mkConc(k, t.c)
	}
	return symv{t, k}
}

func termOf(v value, w int) *term {
	switch x := v.(type) {
	case symv:
		return x.t
	case bool:
		return kbool(x)
	case int:
		return kconst(uint64(x), w)
	case int8:
		return kconst(uint64(x), w)
	case int16:
		return kconst(uint64(x), w)
	case int32:
		return kconst(uint64(x), w)
	case int64:
		return kconst(uint64(x), w)
	case uint:
		return kconst(uint64(x), w)
	case uint8:
		return kconst(uint64(x), w)
	case uint16:
		return kconst(uint64(x), w)
	case uint32:
		return kconst(uint64(x), w)
	case uint64:
		return kconst(x, w)
	case uintptr:
		return kconst(uint64(x), w)
	}
	panic(fmt.Sprintf("termOf: %T", v))
}

func resize(t *term, to int, signed bool) *term {
	from := t.w
	if from == to {
		return t
	}
	if to < from {
		return mk(opExtract, to, t)
	}
	if signed {
		return mk(opSext, to, t)
	}
	return mk(opZext, to, t)
}

// symBinop: Go semantics of x op y with at least one symbolic operand.
// Division and remainder by zero must have been excluded by the caller (divGuard).
func symBinop(op token.Token, tx, ty types.Type, x, y value) value {
	k, ok := basicKindOf(tx)
	if !ok {
		kx, okx := kindOfValue(x)
		if !okx {
			panic(unsupported("symbolic binop on " + tx.String()))
		}
		k = kx
	}
	w, signed := kindInfo(k)
	a := termOf(x, w)
	if op == token.SHL || op == token.SHR {
		ky, oky := kindOfValue(y)
		if !oky {
			panic(unsupported("shift count type"))
		}
		wy, sy := kindInfo(ky)
		_ = sy // negative signed counts panic in Go; counts here are small non-negative
		bt := termOf(y, wy)
		var b *term
		var big *term // condition count >= w
		if wy > w {
			big = mk(opBvUle, 0, kconst(uint64(w), wy), bt)
			b = mk(opExtract, w, bt)
		} else {
			b = resize(bt, w, false)
			if uint64(w) <= mask(wy) || wy == w {
				big = mk(opBvUle, 0, kconst(uint64(w), w), b)
			} else {
				big = kbool(false)
			}
		}
		var r *term
		switch {
		case op == token.SHL:
			r = mk(opBvShl, w, a, b)
			r = tite(big, kconst(0, w), r)
		case signed:
			r = mk(opBvAshr, w, a, b)
			r = tite(big, mk(opBvAshr, w, a, kconst(uint64(w-1), w)), r)
		default:
			r = mk(opBvLshr, w, a, b)
			r = tite(big, kconst(0, w), r)
		}
		return wrapTerm(r, k)
	}
	b := termOf(y, w)
	arith := func(u, s termOp) value {
		if signed {
			return wrapTerm(mk(s, w, a, b), k)
		}
		return wrapTerm(mk(u, w, a, b), k)
	}
	switch op {
	case token.ADD:
		return arith(opBvAdd, opBvAdd)
	case token.SUB:
		return arith(opBvSub, opBvSub)
	case token.MUL:
		return arith(opBvMul, opBvMul)
	case token.QUO:
		return arith(opBvUdiv, opBvSdiv)
	case token.REM:
		return arith(opBvUrem, opBvSrem)
	case token.AND:
		if w == 0 {
			return wrapTerm(tand(a, b), k)
		}
		return arith(opBvAnd, opBvAnd)
	case token.OR:
		if w == 0 {
			return wrapTerm(tor(a, b), k)
		}
		return arith(opBvOr, opBvOr)
	case token.XOR:
		if w == 0 {
			return wrapTerm(tnot(teq(a, b)), k)
		}
		return arith(opBvXor, opBvXor)
	case token.AND_NOT:
		return wrapTerm(mk(opBvAnd, w, a, mk(opBvNot, w, b)), k)
	case token.EQL:
		return wrapTerm(teq(a, b), types.Bool)
	case token.NEQ:
		return wrapTerm(tnot(teq(a, b)), types.Bool)
	}
	lt, le := opBvUlt, opBvUle
	if signed {
		lt, le = opBvSlt, opBvSle
	}
	switch op {
	case token.LSS:
		return wrapTerm(mk(lt, 0, a, b), types.Bool)
	case token.LEQ:
		return wrapTerm(mk(le, 0, a, b), types.Bool)
	case token.GTR:
		return wrapTerm(mk(lt, 0, b, a), types.Bool)
	case token.GEQ:
		return wrapTerm(mk(le, 0, b, a), types.Bool)
	}
	panic(unsupported("symBinop op " + op.String()))
}

func symUnop(op token.Token, x symv) value {
	w, _ := kindInfo(x.k)
	switch op {
	case token.NOT:
		return wrapTerm(tnot(x.t), types.Bool)
	case token.SUB:
		return wrapTerm(mk(opBvNeg, w, x.t), x.k)
	case token.XOR:
		return wrapTerm(mk(opBvNot, w, x.t), x.k)
	}
	panic(unsupported("symUnop " + op.String()))
}

func symConv(tdst types.Type, x symv) value {
	kd, ok := basicKindOf(tdst)
	if !ok {
		panic(unsupported(fmt.Sprintf("symbolic conversion to %v", tdst)))
	}
	wd, _ := kindInfo(kd)
	_, ss := kindInfo(x.k)
	if wd == 0 || x.t.w == 0 {
		if wd == 0 && x.t.w == 0 {
			return symv{x.t, kd}
		}
		panic(unsupported("bool/int conversion"))
	}
	return wrapTerm(resize(x.t, wd, ss), kd)
}

// unsupportedErr marks an engine gap: the path is ended as inconclusive.
type unsupportedErr struct{ msg string }

func (u unsupportedErr) Error() string      { return "unsupported: " + u.msg }
func unsupported(msg string) unsupportedErr { return unsupportedErr{msg} }
