package interp

// SMT back end: one long-lived solver process, queries batched through its
// stdin with push/pop, a query cache keyed by the independent constraint
// component, and model extraction.

import (
	"bufio"
	"fmt"
	"io"
	"os"
	"os/exec"
	"sort"
	"strconv"
	"strings"
	"time"
)

type solverProc struct {
	name     string
	cmd      *exec.Cmd
	in       *bufio.Writer
	inRaw    io.WriteCloser
	out      *bufio.Reader
	declared int // number of variables declared so far
	log      io.Writer
	defined  map[int]bool // terms sent once as (define-fun t!<id> ...) at the base level
}

// shareSize: terms with more nodes than this are defined once by name and referred to afterwards.
const shareSize = 24

// ref returns the text by which the solver knows t: small terms inline, large ones by a name whose definition
// (built from the names of its large children) is emitted once, outside any push/pop scope.
func (s *solverProc) ref(t *term) string {
	if t.sz <= shareSize {
		return t.String()
	}
	name := "t!" + strconv.Itoa(t.id)
	if s.defined[t.id] {
		return name
	}
	body := t.render(s.ref)
	if t.w == 0 {
		fmt.Fprintf(s.in, "(define-fun %s () Bool %s)\n", name, body)
	} else {
		fmt.Fprintf(s.in, "(define-fun %s () (_ BitVec %d) %s)\n", name, t.w, body)
	}
	if s.defined == nil {
		s.defined = map[int]bool{}
	}
	s.defined[t.id] = true
	return name
}

type SolverStats struct {
	Queries    int
	CacheHits  int
	ModelHits  int
	Sat        int
	Unsat      int
	Unknown    int
	Errors     int
	SolverTime time.Duration
}

type qres struct {
	sat   int8 // 1 sat, 0 unsat, -1 unknown
	patch []varval
}

type varval struct {
	v   int
	val uint64
}

var solverArgs = map[string][]string{
	"z3":     {"z3", "-in"},
	"z3-new": {"z3-new", "-in"},
	"cvc5":   {"cvc5", "--incremental", "--lang=smt2", "--produce-models"},
}

func startSolver(name string, timeoutMs int) *solverProc {
	args, ok := solverArgs[name]
	if !ok {
		panic("unknown solver " + name)
	}
	cmd := exec.Command(args[0], args[1:]...)
	in, err := cmd.StdinPipe()
	if err != nil {
		panic(err)
	}
	outp, err := cmd.StdoutPipe()
	if err != nil {
		panic(err)
	}
	cmd.Stderr = os.Stderr
	if err := cmd.Start(); err != nil {
		panic(fmt.Sprintf("cannot start solver %s: %v", name, err))
	}
	s := &solverProc{name: name, cmd: cmd, inRaw: in, in: bufio.NewWriterSize(in, 1<<16), out: bufio.NewReaderSize(outp, 1<<16)}
	if name == "cvc5" {
		fmt.Fprintf(s.in, "(set-logic ALL)\n(set-option :tlimit-per %d)\n", timeoutMs)
	} else {
		fmt.Fprintf(s.in, "(set-option :timeout %d)\n", timeoutMs)
	}
	return s
}

func (s *solverProc) close() {
	if s == nil || s.cmd == nil {
		return
	}
	fmt.Fprintln(s.in, "(exit)")
	s.in.Flush()
	s.inRaw.Close()
	s.cmd.Wait()
	s.cmd = nil
}

func (s *solverProc) declareVars() {
	for s.declared < len(symtab.varNames) {
		w := symtab.varWidth[s.declared]
		if w == 0 {
			fmt.Fprintf(s.in, "(declare-const %s Bool)\n", symtab.varNames[s.declared])
		} else {
			fmt.Fprintf(s.in, "(declare-const %s (_ BitVec %d))\n", symtab.varNames[s.declared], w)
		}
		s.declared++
	}
}

func (s *solverProc) readLine() string {
	line, err := s.out.ReadString('\n')
	if err != nil {
		panic(fmt.Sprintf("solver %s died: %v", s.name, err))
	}
	return strings.TrimSpace(line)
}

// check decides satisfiability of the conjunction; when sat and vars != nil it
// also returns values for those variables.
func (s *solverProc) check(conj []*term, vars []int) (sat int8, vals []varval, errLine string) {
	s.declareVars()
	refs := make([]string, 0, len(conj))
	seen := map[int]bool{}
	for _, c := range conj {
		if seen[c.id] {
			continue
		}
		seen[c.id] = true
		refs = append(refs, s.ref(c)) // may emit definitions: before the push
	}
	fmt.Fprintln(s.in, "(push 1)")
	for _, r := range refs {
		fmt.Fprintf(s.in, "(assert %s)\n", r)
	}
	fmt.Fprintln(s.in, "(check-sat)")
	s.in.Flush()
	line := s.readLine()
	for strings.HasPrefix(line, "(error") || line == "" {
		if line != "" {
			errLine = line
		}
		line = s.readLine()
	}
	switch line {
	case "sat":
		sat = 1
	case "unsat":
		sat = 0
	default:
		sat = -1
	}
	if errLine != "" {
		sat = -1
	}
	if sat == 1 && len(vars) > 0 {
		var sb strings.Builder
		sb.WriteString("(get-value (")
		for _, v := range vars {
			sb.WriteString(symtab.varNames[v])
			sb.WriteByte(' ')
		}
		sb.WriteString("))\n")
		s.in.WriteString(sb.String())
		s.in.Flush()
		txt := s.readSexp()
		vals = parseValues(txt, vars)
		if vals == nil {
			sat = -1
			errLine = "cannot parse model: " + txt
		}
	}
	fmt.Fprintln(s.in, "(pop 1)")
	return
}

func (s *solverProc) readSexp() string {
	var sb strings.Builder
	depth := 0
	started := false
	for {
		l, err := s.out.ReadString('\n')
		if err != nil {
			panic(fmt.Sprintf("solver %s died: %v", s.name, err))
		}
		sb.WriteString(l)
		for _, ch := range l {
			if ch == '(' {
				depth++
				started = true
			} else if ch == ')' {
				depth--
			}
		}
		if started && depth <= 0 {
			break
		}
	}
	return sb.String()
}

// parseValues parses "((h0 #x61) (h1 #b1) (b true))".
func parseValues(txt string, vars []int) []varval {
	byName := map[string]int{}
	for _, v := range vars {
		byName[symtab.varNames[v]] = v
	}
	txt = strings.NewReplacer("(", " ( ", ")", " ) ").Replace(txt)
	f := strings.Fields(txt)
	var out []varval
	for i := 1; i+2 < len(f); i++ {
		v, ok := byName[f[i]]
		if !ok || f[i-1] != "(" {
			continue
		}
		tok := f[i+1]
		var val uint64
		var err error
		switch {
		case strings.HasPrefix(tok, "#x"):
			val, err = strconv.ParseUint(tok[2:], 16, 64)
		case strings.HasPrefix(tok, "#b"):
			val, err = strconv.ParseUint(tok[2:], 2, 64)
		case tok == "true":
			val = 1
		case tok == "false":
			val = 0
		case tok == "(" && i+3 < len(f) && f[i+2] == "_" && strings.HasPrefix(f[i+3], "bv"):
			val, err = strconv.ParseUint(f[i+3][2:], 10, 64)
		default:
			return nil
		}
		if err != nil {
			return nil
		}
		out = append(out, varval{v, val})
		delete(byName, f[i])
	}
	if len(byName) != 0 {
		return nil
	}
	return out
}

// ---------------------------------------------------------------------------

func varsOfMask(m uint64) []int {
	var out []int
	for i := 0; i < 63 && i < len(symtab.varNames); i++ {
		if m&(1<<uint(i)) != 0 {
			out = append(out, i)
		}
	}
	if m&(1<<63) != 0 {
		for i := 63; i < len(symtab.varNames); i++ {
			out = append(out, i)
		}
	}
	return out
}

// component returns the constraints of pc transitively sharing variables with q.
func component(pc []*term, q *term) (rel []*term, m uint64) {
	m = q.vars
	used := make([]bool, len(pc))
	for changed := true; changed; {
		changed = false
		for i, c := range pc {
			if !used[i] && c.vars&m != 0 {
				used[i] = true
				rel = append(rel, c)
				if m|c.vars != m {
					m |= c.vars
					changed = true
				}
			}
		}
	}
	return
}

func queryKey(rel []*term, q *term) string {
	ids := make([]int, len(rel))
	for i, c := range rel {
		ids[i] = c.id
	}
	sort.Ints(ids)
	var sb strings.Builder
	last := -1
	for _, id := range ids {
		if id == last {
			continue
		}
		last = id
		sb.WriteString(strconv.Itoa(id))
		sb.WriteByte(',')
	}
	sb.WriteByte('?')
	sb.WriteString(strconv.Itoa(q.id))
	return sb.String()
}
