// Copyright 2013 The Go Authors. All rights reserved.
// Use of this source code is governed by a BSD-style
// license that can be found in the LICENSE file.

// Package ssa/interp defines an interpreter for the SSA
// representation of Go programs.
//
// This interpreter is provided as an adjunct for testing the SSA
// construction algorithm.  Its purpose is to provide a minimal
// metacircular implementation of the dynamic semantics of each SSA
// instruction.  It is not, and will never be, a production-quality Go
// interpreter.
//
// The following is a partial list of Go features that are currently
// unsupported or incomplete in the interpreter.
//
// * Unsafe operations, including all uses of unsafe.Pointer, are
// impossible to support given the "boxed" value representation we
// have chosen.
//
// * The reflect package is only partially implemented.
//
// * The "testing" package is no longer supported because it
// depends on low-level details that change too often.
//
// * "sync/atomic" operations are not atomic due to the "boxed" value
// representation: it is not possible to read, modify and write an
// interface value atomically. As a consequence, Mutexes are currently
// broken.
//
// * recover is only partially implemented.  Also, the interpreter
// makes no attempt to distinguish target panics from interpreter
// crashes.
//
// * the sizes of the int, uint and uintptr types in the target
// program are assumed to be the same as those of the interpreter
// itself.
//
// * all values occupy space, even those of types defined by the spec
// to have zero size, e.g. struct{}.  This can cause asymptotic
// performance degradation.
//
// * os.Exit is implemented using panic, causing deferred functions to
// run.
package interp // import "golang.org/x/tools/go/ssa/interp"

import (
	"fmt"
	"go/token"
	"go/types"
	"log"
	"os"
	"reflect"
	"runtime"
	"slices"
	"sync/atomic"
	_ "unsafe"

	"golang.org/x/tools/go/ssa"
)

var curFr *frame // innermost interpreted frame (diagnostics only)

// targetStack renders the interpreted call stack.
func targetStack() string {
	var sb []byte
	n := 0
	for f := curFr; f != nil && n < 12; f = f.caller {
		if f.fn != nil {
			sb = append(sb, f.fn.String()...)
			sb = append(sb, " < "...)
		}
		n++
	}
	return string(sb)
}

// fnInfo numbers the SSA values of one function (frame slots).
type fnInfo struct {
	idx map[ssa.Value]int
	n   int
	cov []bool // per basic block: executed at least once (functions of github.com/coregx/* only)
}

func (i *interpreter) infoOf(fn *ssa.Function) *fnInfo {
	if inf, ok := i.infos[fn]; ok {
		return inf
	}
	inf := &fnInfo{idx: map[ssa.Value]int{}}
	add := func(v ssa.Value) {
		if _, ok := inf.idx[v]; !ok {
			inf.idx[v] = inf.n
			inf.n++
		}
	}
	for _, p := range fn.Params {
		add(p)
	}
	for _, fv := range fn.FreeVars {
		add(fv)
	}
	for _, l := range fn.Locals {
		add(l)
	}
	for _, b := range fn.Blocks {
		for _, ins := range b.Instrs {
			if v, ok := ins.(ssa.Value); ok {
				add(v)
			}
		}
	}
	if fn.Recover != nil {
		for _, ins := range fn.Recover.Instrs {
			if v, ok := ins.(ssa.Value); ok {
				add(v)
			}
		}
	}
	if i.infos == nil {
		i.infos = map[*ssa.Function]*fnInfo{}
	}
	if isCoregxFn(fn) {
		inf.cov = make([]bool, len(fn.Blocks))
	}
	i.infos[fn] = inf
	return inf
}

func (i *interpreter) constOf(c *ssa.Const) value {
	if v, ok := i.consts[c]; ok {
		return v
	}
	v := constValue(c)
	if c.Value != nil {
		if i.consts == nil {
			i.consts = map[*ssa.Const]value{}
		}
		i.consts[c] = v
	}
	return v
}

func (fr *frame) set(instr ssa.Value, v value) {
	fr.env[fr.info.idx[instr]] = v
}

type continuation int

const (
	kNext continuation = iota
	kReturn
	kJump
)

// Mode is a bitmask of options affecting the interpreter.
type Mode uint

const (
	DisableRecover Mode = 1 << iota // Disable recover() in target programs; show interpreter crash instead.
	EnableTracing                   // Print a trace of all instructions as they are interpreted.
)

type methodSet map[string]*ssa.Function

// State shared between all interpreted goroutines.
type interpreter struct {
	osArgs             []value                // the value of os.Args
	prog               *ssa.Program           // the SSA program
	globals            map[*ssa.Global]*value // addresses of global variables (immutable)
	mode               Mode                   // interpreter options
	reflectPackage     *ssa.Package           // the fake reflect package
	errorMethods       methodSet              // the method set of reflect.error, which implements the error interface.
	rtypeMethods       methodSet              // the method set of rtype, which implements the reflect.Type interface.
	runtimeErrorString types.Type             // the runtime.errorString type (iff "runtime" is present)
	sizes              types.Sizes            // the effective type-sizing function
	goroutines         int32                  // atomically updated
	extCache           map[*ssa.Function]externalFn
	infos              map[*ssa.Function]*fnInfo
	consts             map[*ssa.Const]value
	workFn             map[*ssa.Function]bool
}

type deferred struct {
	fn    value
	args  []value
	instr *ssa.Defer
	tail  *deferred
}

type frame struct {
	i                *interpreter
	caller           *frame
	fn               *ssa.Function
	block, prevBlock *ssa.BasicBlock
	env              []value // dynamic values of SSA variables, indexed by info.idx
	info             *fnInfo
	locals           []value
	defers           *deferred
	result           value
	panicking        bool
	panic            any
	phitemps         []value // temporaries for parallel phi assignment
}

func (fr *frame) get(key ssa.Value) value {
	switch key := key.(type) {
	case nil:
		// Hack; simplifies handling of optional attributes
		// such as ssa.Slice.{Low,High}.
		return nil
	case *ssa.Function, *ssa.Builtin:
		return key
	case *ssa.Const:
		return fr.i.constOf(key)
	case *ssa.Global:
		if r, ok := fr.i.globals[key]; ok {
			return r
		}
	}
	if ix, ok := fr.info.idx[key]; ok {
		return fr.env[ix]
	}
	panic(fmt.Sprintf("get: no value for %T: %v", key, key.Name()))
}

// runDefer runs a deferred call d.
// It always returns normally, but may set or clear fr.panic.
func (fr *frame) runDefer(d *deferred) {
	if fr.i.mode&EnableTracing != 0 {
		fmt.Fprintf(os.Stderr, "%s: invoking deferred function call\n",
			fr.i.prog.Fset.Position(d.instr.Pos()))
	}
	var ok bool
	defer func() {
		if !ok {
			// Deferred call created a new state of panic.
			r := recover()
			switch r.(type) {
			case pathEnd, unsupportedErr, parAbort:
				panic(r)
			}
			fr.panicking = true
			fr.panic = r
		}
	}()
	call(fr.i, fr, d.instr.Pos(), d.fn, d.args)
	ok = true
}

// runDefers executes fr's deferred function calls in LIFO order.
//
// On entry, fr.panicking indicates a state of panic; if
// true, fr.panic contains the panic value.
//
// On completion, if a deferred call started a panic, or if no
// deferred call recovered from a previous state of panic, then
// runDefers itself panics after the last deferred call has run.
//
// If there was no initial state of panic, or it was recovered from,
// runDefers returns normally.
func (fr *frame) runDefers() {
	for d := fr.defers; d != nil; d = d.tail {
		fr.runDefer(d)
	}
	fr.defers = nil
	if fr.panicking {
		panic(fr.panic) // new panic, or still panicking
	}
}

// lookupMethod returns the method set for type typ, which may be one
// of the interpreter's fake types.
func lookupMethod(i *interpreter, typ types.Type, meth *types.Func) *ssa.Function {
	switch typ {
	case rtypeType:
		return i.rtypeMethods[meth.Id()]
	case errorType:
		return i.errorMethods[meth.Id()]
	}
	return i.prog.LookupMethod(typ, meth.Pkg(), meth.Name())
}

// visitInstr interprets a single ssa.Instruction within the activation
// record frame.  It returns a continuation value indicating where to
// read the next instruction from.
func visitInstr(fr *frame, instr ssa.Instruction) continuation {
	switch instr := instr.(type) {
	case *ssa.DebugRef:
		// no-op

	case *ssa.UnOp:
		if sx, ok := fr.get(instr.X).(symv); ok {
			fr.set(instr, symUnop(instr.Op, sx))
		} else {
			fr.set(instr, unop(instr, fr.get(instr.X)))
		}

	case *ssa.BinOp:
		if bx, by := fr.get(instr.X), fr.get(instr.Y); isSym(bx) || isSym(by) {
			noteSym(fr)
			if instr.Op == token.QUO || instr.Op == token.REM {
				divGuard(by)
			}
			fr.set(instr, symBinop(instr.Op, instr.X.Type(), instr.Y.Type(), bx, by))
		} else if isSymAgg(bx) || isSymAgg(by) {
			noteSym(fr)
			fr.set(instr, symAggBinop(instr.Op, instr.X.Type(), bx, by))
		} else {
			fr.set(instr, binop(instr.Op, instr.X.Type(), bx, by))
		}

	case *ssa.Call:
		fn, args := prepareCall(fr, &instr.Call)
		fr.set(instr, call(fr.i, fr, instr.Pos(), fn, args))

	case *ssa.ChangeInterface:
		fr.set(instr, fr.get(instr.X))

	case *ssa.ChangeType:
		fr.set(instr, fr.get(instr.X)) // (can't fail)

	case *ssa.Convert:
		if sx, ok := fr.get(instr.X).(symv); ok {
			if bt, isB := instr.Type().Underlying().(*types.Basic); isB && bt.Kind() == types.String {
				fr.set(instr, normStr(symstr(encodeRuneSym(sx))))
			} else {
				fr.set(instr, symConv(instr.Type(), sx))
			}
		} else {
			fr.set(instr, conv(instr.Type(), instr.X.Type(), fr.get(instr.X)))
		}

	case *ssa.SliceToArrayPointer:
		fr.set(instr, sliceToArrayPointer(instr.Type(), instr.X.Type(), fr.get(instr.X)))

	case *ssa.MakeInterface:
		fr.set(instr, iface{t: instr.X.Type(), v: fr.get(instr.X)})

	case *ssa.Extract:
		fr.set(instr, fr.get(instr.Tuple).(tuple)[instr.Index])

	case *ssa.Slice:
		fr.set(instr, slice(fr.get(instr.X), fr.get(instr.Low), fr.get(instr.High), fr.get(instr.Max)))

	case *ssa.Return:
		switch len(instr.Results) {
		case 0:
		case 1:
			fr.result = fr.get(instr.Results[0])
		default:
			var res []value
			for _, r := range instr.Results {
				res = append(res, fr.get(r))
			}
			fr.result = tuple(res)
		}
		fr.block = nil
		return kReturn

	case *ssa.RunDefers:
		fr.runDefers()

	case *ssa.Panic:
		panic(targetPanic{fr.get(instr.X)})

	case *ssa.Send:
		fr.get(instr.Chan).(chan value) <- fr.get(instr.X)

	case *ssa.Store:
		store(mustDeref(instr.Addr.Type()), fr.get(instr.Addr).(*value), fr.get(instr.Val))

	case *ssa.If:
		succ := 1
		if sc, ok := fr.get(instr.Cond).(symv); ok {
			noteSym(fr)
			if ex.branch(sc.t) {
				succ = 0
			}
		} else if fr.get(instr.Cond).(bool) {
			succ = 0
		}
		fr.prevBlock, fr.block = fr.block, fr.block.Succs[succ]
		return kJump

	case *ssa.Jump:
		fr.prevBlock, fr.block = fr.block, fr.block.Succs[0]
		return kJump

	case *ssa.Defer:
		fn, args := prepareCall(fr, &instr.Call)
		defers := &fr.defers
		if into := fr.get(instr.DeferStack); into != nil {
			defers = into.(**deferred)
		}
		*defers = &deferred{
			fn:    fn,
			args:  args,
			instr: instr,
			tail:  *defers,
		}

	case *ssa.Go:
		fn, args := prepareCall(fr, &instr.Call)
		atomic.AddInt32(&fr.i.goroutines, 1)
		go func() {
			call(fr.i, nil, instr.Pos(), fn, args)
			atomic.AddInt32(&fr.i.goroutines, -1)
		}()

	case *ssa.MakeChan:
		fr.set(instr, make(chan value, asInt64(fr.get(instr.Size))))

	case *ssa.Alloc:
		var addr *value
		if instr.Heap {
			// new
			addr = new(value)
			fr.set(instr, addr)
		} else {
			// local
			addr = fr.env[fr.info.idx[instr]].(*value)
		}
		*addr = zero(mustDeref(instr.Type()))

	case *ssa.MakeSlice:
		slice := make([]value, asInt64(fr.get(instr.Cap)))
		tElt := instr.Type().Underlying().(*types.Slice).Elem()
		for i := range slice {
			slice[i] = zero(tElt)
		}
		fr.set(instr, slice[:asInt64(fr.get(instr.Len))])

	case *ssa.MakeMap:
		var reserve int64
		if instr.Reserve != nil {
			reserve = asInt64(fr.get(instr.Reserve))
		}
		if !fitsInt(reserve, fr.i.sizes) {
			panic(fmt.Sprintf("ssa.MakeMap.Reserve value %d does not fit in int", reserve))
		}
		fr.set(instr, makeMap(instr.Type().Underlying().(*types.Map).Key(), reserve))

	case *ssa.Range:
		fr.set(instr, rangeIter(fr.get(instr.X)))

	case *ssa.Next:
		fr.set(instr, fr.get(instr.Iter).(iter).next())

	case *ssa.FieldAddr:
		fr.set(instr, &(*fr.get(instr.X).(*value)).(structure)[instr.Field])

	case *ssa.Field:
		fr.set(instr, fr.get(instr.X).(structure)[instr.Field])

	case *ssa.IndexAddr:
		x := fr.get(instr.X)
		idx := fr.get(instr.Index)
		switch x := x.(type) {
		case []value:
			if si, ok := idx.(symv); ok {
				noteSym(fr)
				if onlyLoaded(instr) {
					fr.set(instr, &x[symIndex(si, x)])
				} else {
					fr.set(instr, &x[asInt64(si)])
				}
			} else {
				fr.set(instr, &x[asInt64(idx)])
			}
		case *value: // *array
			if si, ok := idx.(symv); ok {
				noteSym(fr)
				arr := (*x).(array)
				if onlyLoaded(instr) {
					fr.set(instr, &arr[symIndex(si, arr)])
				} else {
					fr.set(instr, &arr[asInt64(si)])
				}
			} else {
				fr.set(instr, &(*x).(array)[asInt64(idx)])
			}
		default:
			panic(fmt.Sprintf("unexpected x type in IndexAddr: %T", x))
		}

	case *ssa.Index:
		x := fr.get(instr.X)
		idx := fr.get(instr.Index)

		switch x := x.(type) {
		case array:
			if si, ok := idx.(symv); ok {
				fr.set(instr, x[symIndex(si, x)])
			} else {
				fr.set(instr, x[asInt64(idx)])
			}
		case string:
			if si, ok := idx.(symv); ok {
				cells := make([]value, len(x))
				for i := 0; i < len(x); i++ {
					cells[i] = x[i]
				}
				fr.set(instr, x[symIndex(si, cells)])
			} else {
				fr.set(instr, x[asInt64(idx)])
			}
		case symstr:
			if si, ok := idx.(symv); ok {
				fr.set(instr, x[symIndex(si, []value(x))])
			} else {
				fr.set(instr, x[asInt64(idx)])
			}
		default:
			panic(fmt.Sprintf("unexpected x type in Index: %T", x))
		}

	case *ssa.Lookup:
		fr.set(instr, lookup(instr, fr.get(instr.X), fr.get(instr.Index)))

	case *ssa.MapUpdate:
		m := fr.get(instr.Map)
		key := fr.get(instr.Key)
		v := fr.get(instr.Value)
		key = concKey(key)
		switch m := m.(type) {
		case map[value]value:
			logMap(m, key)
			m[key] = v
		case *hashmap:
			logHashmap(m)
			m.insert(key.(hashable), v)
		default:
			panic(fmt.Sprintf("illegal map type: %T", m))
		}

	case *ssa.TypeAssert:
		fr.set(instr, typeAssert(instr, fr.get(instr.X).(iface)))

	case *ssa.MakeClosure:
		var bindings []value
		for _, binding := range instr.Bindings {
			bindings = append(bindings, fr.get(binding))
		}
		fr.set(instr, &closure{instr.Fn.(*ssa.Function), bindings})

	case *ssa.Phi:
		log.Fatal("unreachable") // phis are processed at block entry

	case *ssa.Select:
		var cases []reflect.SelectCase
		if !instr.Blocking {
			cases = append(cases, reflect.SelectCase{
				Dir: reflect.SelectDefault,
			})
		}
		for _, state := range instr.States {
			var dir reflect.SelectDir
			if state.Dir == types.RecvOnly {
				dir = reflect.SelectRecv
			} else {
				dir = reflect.SelectSend
			}
			var send reflect.Value
			if state.Send != nil {
				send = reflect.ValueOf(fr.get(state.Send))
			}
			cases = append(cases, reflect.SelectCase{
				Dir:  dir,
				Chan: reflect.ValueOf(fr.get(state.Chan)),
				Send: send,
			})
		}
		chosen, recv, recvOk := reflect.Select(cases)
		if !instr.Blocking {
			chosen-- // default case should have index -1.
		}
		r := tuple{chosen, recvOk}
		for i, st := range instr.States {
			if st.Dir == types.RecvOnly {
				var v value
				if i == chosen && recvOk {
					// No need to copy since send makes an unaliased copy.
					v = recv.Interface().(value)
				} else {
					v = zero(st.Chan.Type().Underlying().(*types.Chan).Elem())
				}
				r = append(r, v)
			}
		}
		fr.set(instr, r)

	default:
		panic(fmt.Sprintf("unexpected instruction: %T", instr))
	}

	// if val, ok := instr.(ssa.Value); ok {
	// 	fmt.Println(toString(fr.env[val])) // debugging
	// }

	return kNext
}

// prepareCall determines the function value and argument values for a
// function call in a Call, Go or Defer instruction, performing
// interface method lookup if needed.
func prepareCall(fr *frame, call *ssa.CallCommon) (fn value, args []value) {
	v := fr.get(call.Value)
	if call.Method == nil {
		// Function call.
		fn = v
	} else {
		// Interface method invocation.
		recv := v.(iface)
		if recv.t == nil {
			panic("method invoked on nil interface")
		}
		if f := lookupMethod(fr.i, recv.t, call.Method); f == nil {
			// Unreachable in well-typed programs.
			panic(fmt.Sprintf("method set for dynamic type %v does not contain %s", recv.t, call.Method))
		} else {
			fn = f
		}
		args = append(args, recv.v)
	}
	for _, arg := range call.Args {
		args = append(args, fr.get(arg))
	}
	return
}

// call interprets a call to a function (function, builtin or closure)
// fn with arguments args, returning its result.
// callpos is the position of the callsite.
func call(i *interpreter, caller *frame, callpos token.Pos, fn value, args []value) value {
	switch fn := fn.(type) {
	case *ssa.Function:
		if fn == nil {
			panic("call of nil function") // nil of func type
		}
		return callSSA(i, caller, callpos, fn, args, nil)
	case *closure:
		return callSSA(i, caller, callpos, fn.Fn, args, fn.Env)
	case *ssa.Builtin:
		return callBuiltin(caller, fn, args)
	}
	panic(fmt.Sprintf("cannot call %T", fn))
}

func loc(fset *token.FileSet, pos token.Pos) string {
	if pos == token.NoPos {
		return ""
	}
	return " at " + fset.Position(pos).String()
}

// callSSA interprets a call to function fn with arguments args,
// and lexical environment env, returning its result.
// callpos is the position of the callsite.
func callSSA(i *interpreter, caller *frame, callpos token.Pos, fn *ssa.Function, args []value, env []value) value {
	if i.mode&EnableTracing != 0 {
		fset := fn.Prog.Fset
		// TODO(adonovan): fix: loc() lies for external functions.
		fmt.Fprintf(os.Stderr, "Entering %s%s.\n", fn, loc(fset, fn.Pos()))
		suffix := ""
		if caller != nil {
			suffix = ", resuming " + caller.fn.String() + loc(fset, callpos)
		}
		defer fmt.Fprintf(os.Stderr, "Leaving %s%s.\n", fn, suffix)
	}
	fr := &frame{
		i:      i,
		caller: caller, // for panic/recover
		fn:     fn,
	}
	if ext, ok := i.extCache[fn]; ok {
		if ext != nil {
			return ext(fr, args)
		}
	} else if fn.Parent() == nil {
		name := fn.String()
		i.extCache[fn] = externals[name]
		if fn.Name() == "init" && fn.Pkg != nil && skipInit(fn.Pkg.Pkg.Path()) {
			i.extCache[fn] = func(fr *frame, args []value) value { return nil }
			return nil
		}
		if ext := externals[name]; ext != nil {
			if i.mode&EnableTracing != 0 {
				fmt.Fprintln(os.Stderr, "\t(external)")
			}
			return ext(fr, args)
		}
		if fn.Blocks == nil {
			i.extCache[fn] = func(fr *frame, args []value) value {
				panic(unsupported("no code for function: " + name))
			}
			panic(unsupported("no code for function: " + name))
		}
	}

	// generic function body?
	if fn.TypeParams().Len() > 0 && len(fn.TypeArgs()) == 0 {
		panic("interp requires ssa.BuilderMode to include InstantiateGenerics to execute generics")
	}

	fr.info = i.infoOf(fn)
	fr.env = make([]value, fr.info.n)
	fr.block = fn.Blocks[0]
	fr.locals = make([]value, len(fn.Locals))
	for i, l := range fn.Locals {
		fr.locals[i] = zero(mustDeref(l.Type()))
		fr.env[fr.info.idx[l]] = &fr.locals[i]
	}
	for i, p := range fn.Params {
		fr.env[fr.info.idx[p]] = args[i]
	}
	for i, fv := range fn.FreeVars {
		fr.env[fr.info.idx[fv]] = env[i]
	}
	savedFr := curFr
	curFr = fr
	for fr.block != nil {
		runFrame(fr)
	}
	curFr = savedFr
	// Destroy the locals to avoid accidental use after return.
	for i := range fn.Locals {
		fr.locals[i] = bad{}
	}
	return fr.result
}

// runFrame executes SSA instructions starting at fr.block and
// continuing until a return, a panic, or a recovered panic.
//
// After a panic, runFrame panics.
//
// After a normal return, fr.result contains the result of the call
// and fr.block is nil.
//
// A recovered panic in a function without named return parameters
// (NRPs) becomes a normal return of the zero value of the function's
// result type.
//
// After a recovered panic in a function with NRPs, fr.result is
// undefined and fr.block contains the block at which to resume
// control.
func runFrame(fr *frame) {
	defer func() {
		if fr.block == nil {
			return // normal return
		}
		if fr.i.mode&DisableRecover != 0 {
			return // let interpreter crash
		}
		r := recover()
		switch r.(type) {
		case pathEnd, unsupportedErr, parAbort:
			fr.block = nil
			panic(r) // engine sentinel: unwind without running target defers
		}
		fr.panicking = true
		fr.panic = r
		if fr.i.mode&EnableTracing != 0 {
			fmt.Fprintf(os.Stderr, "Panicking: %T %v.\n", fr.panic, fr.panic)
		}
		fr.runDefers()
		fr.block = fr.fn.Recover
	}()

	for {
		if fr.i.mode&EnableTracing != 0 {
			fmt.Fprintf(os.Stderr, ".%s:\n", fr.block)
		}

		nonPhis := executePhis(fr)
		if c := fr.info.cov; c != nil && fr.block.Index < len(c) {
			c[fr.block.Index] = true
		}
		if ex != nil && ex.logging {
			ex.steps += int64(len(nonPhis))
			if ex.steps > ex.StepLimit {
				panic(pathEnd{endStepBound, fmt.Sprintf("more than %d SSA instructions", ex.StepLimit)})
			}
			if isWorkFn(fr) {
				ex.work++
			}
		}
		for _, instr := range nonPhis {
			if fr.i.mode&EnableTracing != 0 {
				if v, ok := instr.(ssa.Value); ok {
					fmt.Fprintln(os.Stderr, "\t", v.Name(), "=", instr)
				} else {
					fmt.Fprintln(os.Stderr, "\t", instr)
				}
			}
			if visitInstr(fr, instr) == kReturn {
				return
			}
			// Inv: kNext (continue) or kJump (last instr)
		}
	}
}

// executePhis executes the phi-nodes at the start of the current
// block and returns the non-phi instructions.
func executePhis(fr *frame) []ssa.Instruction {
	firstNonPhi := -1
	for i, instr := range fr.block.Instrs {
		if _, ok := instr.(*ssa.Phi); !ok {
			firstNonPhi = i
			break
		}
	}
	// Inv: 0 <= firstNonPhi; every block contains a non-phi.

	nonPhis := fr.block.Instrs[firstNonPhi:]
	if firstNonPhi > 0 {
		phis := fr.block.Instrs[:firstNonPhi]
		// Execute parallel assignment of phis.
		//
		// See "the swap problem" in Briggs et al's "Practical Improvements
		// to the Construction and Destruction of SSA Form" for discussion.
		predIndex := slices.Index(fr.block.Preds, fr.prevBlock)
		fr.phitemps = fr.phitemps[:0]
		for _, phi := range phis {
			phi := phi.(*ssa.Phi)
			if fr.i.mode&EnableTracing != 0 {
				fmt.Fprintln(os.Stderr, "\t", phi.Name(), "=", phi)
			}
			fr.phitemps = append(fr.phitemps, fr.get(phi.Edges[predIndex]))
		}
		for i, phi := range phis {
			fr.env[fr.info.idx[phi.(*ssa.Phi)]] = fr.phitemps[i]
		}
	}
	return nonPhis
}

// doRecover implements the recover() built-in.
func doRecover(caller *frame) value {
	// recover() must be exactly one level beneath the deferred
	// function (two levels beneath the panicking function) to
	// have any effect.  Thus we ignore both "defer recover()" and
	// "defer f() -> g() -> recover()".
	if caller.i.mode&DisableRecover == 0 &&
		caller != nil && !caller.panicking &&
		caller.caller != nil && caller.caller.panicking {
		caller.caller.panicking = false
		p := caller.caller.panic
		caller.caller.panic = nil

		// TODO(adonovan): support runtime.Goexit.
		switch p := p.(type) {
		case targetPanic:
			// The target program explicitly called panic().
			return p.v
		case runtime.Error:
			// The interpreter encountered a runtime error.
			return iface{caller.i.runtimeErrorString, p.Error()}
		case string:
			// The interpreter explicitly called panic().
			return iface{caller.i.runtimeErrorString, p}
		default:
			panic(fmt.Sprintf("unexpected panic type %T in target call to recover()", p))
		}
	}
	return iface{}
}

// Interpret interprets the Go program whose main package is mainpkg.
// mode specifies various interpreter options.  filename and args are
// the initial values of os.Args for the target program.  sizes is the
// effective type-sizing function for this program.
//
// Interpret returns the exit code of the program: 2 for panic (like
// gc does), or the argument to os.Exit for normal termination.
//
// The SSA program must include the "runtime" package.
//
// Type parameterized functions must have been built with
// InstantiateGenerics in the ssa.BuilderMode to be interpreted.
func Interpret(mainpkg *ssa.Package, mode Mode, sizes types.Sizes, filename string, args []string) (exitCode int) {
	i := &interpreter{
		prog:       mainpkg.Prog,
		globals:    make(map[*ssa.Global]*value),
		mode:       mode,
		sizes:      sizes,
		goroutines: 1,
		extCache:   make(map[*ssa.Function]externalFn),
		workFn:     make(map[*ssa.Function]bool),
	}
	runtimePkg := i.prog.ImportedPackage("runtime")
	if runtimePkg != nil {
		i.runtimeErrorString = runtimePkg.Type("errorString").Object().Type()
	}

	initReflect(i)

	i.osArgs = append(i.osArgs, filename)
	for _, arg := range args {
		i.osArgs = append(i.osArgs, arg)
	}

	for _, pkg := range i.prog.AllPackages() {
		// Initialize global storage.
		for _, m := range pkg.Members {
			switch v := m.(type) {
			case *ssa.Global:
				cell := zero(mustDeref(v.Type()))
				i.globals[v] = &cell
			}
		}
	}

	// Top-level error handler.
	exitCode = 2
	defer func() {
		if exitCode != 2 || i.mode&DisableRecover != 0 {
			return
		}
		switch p := recover().(type) {
		case exitPanic:
			exitCode = int(p)
			return
		case targetPanic:
			fmt.Fprintln(os.Stderr, "panic:", toString(p.v))
		case runtime.Error:
			fmt.Fprintln(os.Stderr, "panic:", p.Error())
		case string:
			fmt.Fprintln(os.Stderr, "panic:", p)
		default:
			fmt.Fprintf(os.Stderr, "panic: unexpected type: %T: %v\n", p, p)
		}

		// TODO(adonovan): dump panicking interpreter goroutine?
		// buf := make([]byte, 0x10000)
		// runtime.Stack(buf, false)
		// fmt.Fprintln(os.Stderr, string(buf))
		// (Or dump panicking target goroutine?)
	}()

	// Run!
	call(i, nil, token.NoPos, mainpkg.Func("init"), nil)
	if mainFn := mainpkg.Func("main"); mainFn != nil {
		call(i, nil, token.NoPos, mainFn, nil)
		exitCode = 0
	} else {
		fmt.Fprintln(os.Stderr, "No main function.")
		exitCode = 1
	}
	return
}

var skipPrefixes = []string{"runtime", "internal/", "os", "syscall", "time", "reflect", "sync", "io/fs", "path", "golang.org/x/sys/cpu", "errors", "fmt", "unsafe"}

func skipInit(path string) bool {
	for _, p := range skipPrefixes {
		if path == p || (len(path) > len(p) && path[:len(p)] == p && (p[len(p)-1] == '/' || path[len(p)] == '/')) {
			return true
		}
	}
	return false
}
