package interp

// Path exploration: decisions decided by the solver, depth-first search by
// re-execution, and a write trail that restores the heap between paths.

import (
	"fmt"
	"os"
	"runtime"
	"runtime/debug"
	"strings"
	"time"
)

// ---------------------------------------------------------------------------
// Path end sentinels (Go panics that unwind the interpreter without running
// target defers).

type pathEndKind int

const (
	endOK pathEndKind = iota
	endFail
	endPruned
	endPanic
	endStepBound
	endUnsupported
	endDesync
)

func (k pathEndKind) String() string {
	return [...]string{"ok", "fail", "pruned", "panic", "step-bound", "unsupported", "desync"}[k]
}

type pathEnd struct {
	kind pathEndKind
	msg  string
}

// ---------------------------------------------------------------------------

type decRec struct {
	sig   uint64
	feas  []int      // indices of feasible alternatives
	patch [][]varval // model patch making alternative feas[i] true
	vals  []uint64   // for value splits: the value of alternative i
	unk   []bool     // feasibility unknown (solver said unknown)
	idx   int
}

type trailKind uint8

const (
	tkCell trailKind = iota
	tkMap
	tkHashmap
	tkPool
)

type trailEnt struct {
	kind trailKind
	addr *value
	old  value
	m    map[value]value
	hm   *hashmap
	hmT  map[int]*entry
	hmL  int
	key  value
	had  bool
	pool []value
}

// PathResult is what one explored path produced.
type PathResult struct {
	Kind      string            `json:"kind"`
	Msg       string            `json:"msg,omitempty"`
	Model     map[string]uint64 `json:"model"`
	PC        []string          `json:"-"`
	Reach     []string          `json:"reach,omitempty"`
	Snaps     map[string]string `json:"snaps,omitempty"`
	Decisions int               `json:"decisions"`
	Work      int64             `json:"work"`
	Steps     int64             `json:"steps"`
	UnkFeas   bool              `json:"unknown_feasibility,omitempty"`
	pcTerms   []*term
}

type Explorer struct {
	bound      uint64 // variables pinned by an equality conjunct of the current path condition
	solverName string
	timeoutMs  int
	solver     *solverProc
	Stats      SolverStats
	qcache     map[string]qres

	pc    []*term
	model []uint64
	decs  []*decRec
	pos   int
	unk   bool

	trail   []trailEnt
	logging bool

	steps     int64
	StepLimit int64
	work      int64

	reach    []string
	snaps    map[string]string
	failMsg  string
	Decided  int // number of solver-decided decision points (first visits)
	MaxSplit int

	pools map[*value][]value

	FuncsSym map[string]bool // functions executed with a symbolic operand
	trackFns bool
	snapVals []snapRec
	par      *parState
	// MaxPreempt bounds the preemptive context switches per path (C06).
	MaxPreempt int

	SyncHook func(op string, addr *value) // scheduler hook (C06)
	PoolMiss func(p *value) bool
}

func (e *Explorer) syncEvent(op string, addr *value) {
	if e.SyncHook != nil {
		e.SyncHook(op, addr)
	}
	if e.par != nil {
		// every synchronisation operation is a scheduling point (interleavings
		// at sync operations suffice for data-race-free programs)
		e.par.yield()
		if op != "pool.get" && op != "pool.put" {
			e.par.syncOp(addr)
		}
	}
}

func (e *Explorer) poolMiss(p *value) bool {
	if e.PoolMiss != nil {
		return e.PoolMiss(p)
	}
	return false
}

func (e *Explorer) TrackFuncs(on bool) { e.trackFns = on }

var ex *Explorer // the single explorer of this process

func NewExplorer(solverName string, timeoutMs int) *Explorer {
	e := &Explorer{solverName: solverName, timeoutMs: timeoutMs, qcache: map[string]qres{}, StepLimit: 5_000_000, MaxSplit: 64, pools: map[*value][]value{}, FuncsSym: map[string]bool{}}
	ex = e
	return e
}

// ResetItem forgets all terms, caches and the solver context.
func (e *Explorer) ResetItem() {
	if e.solver != nil {
		e.solver.close()
		e.solver = nil
	}
	symtab = &symTable{terms: map[string]*term{}}
	e.qcache = map[string]qres{}
	e.decs = nil
	e.pc = nil
	e.model = nil
	e.Decided = 0
}

func (e *Explorer) Close() {
	if e.solver != nil {
		e.solver.close()
		e.solver = nil
	}
}

func (e *Explorer) sol() *solverProc {
	if e.solver == nil {
		e.solver = startSolver(e.solverName, e.timeoutMs)
	}
	return e.solver
}

func (e *Explorer) modelVal(i int) uint64 {
	if i < len(e.model) {
		return e.model[i]
	}
	return 0
}

func (e *Explorer) applyPatch(p []varval) {
	for _, vv := range p {
		for len(e.model) <= vv.v {
			e.model = append(e.model, 0)
		}
		e.model[vv.v] = vv.val
	}
}

// addPC appends a conjunct to the path condition and records implied values: after (= v c) every model of the path
// condition gives v the value c, so a query over bound variables only is decided by evaluation (implied-value
// concretisation); the current model always satisfies the path condition, hence carries these values.
func (e *Explorer) addPC(c *term) {
	e.pc = append(e.pc, c)
	if c.op == opEq && len(c.a) == 2 {
		x, k := c.a[0], c.a[1]
		if k.op == opVar {
			x, k = k, x
		}
		if x.op == opVar && k.isConst() && x.c < 63 {
			e.bound |= 1 << x.c
		}
	}
}

// feasible decides whether pc ∧ q is satisfiable; on sat it returns a model patch.
func (e *Explorer) feasible(q *term) (sat int8, patch []varval) {
	if q.isConst() {
		if q.c != 0 {
			return 1, nil
		}
		return 0, nil
	}
	if q.eval(e.model) != 0 {
		e.Stats.ModelHits++
		return 1, nil
	}
	if q.vars&^e.bound == 0 {
		// every variable of q is pinned by an equality of the path condition and q is false under those values
		e.Stats.ModelHits++
		return 0, nil
	}
	// q's negation is a conjunct of the path condition: unsatisfiable without asking
	nq := tnot(q)
	for _, c := range e.pc {
		if c == nq {
			e.Stats.CacheHits++
			return 0, nil
		}
	}
	rel, m := component(e.pc, q)
	key := queryKey(rel, q)
	if r, ok := e.qcache[key]; ok {
		e.Stats.CacheHits++
		return r.sat, r.patch
	}
	t0 := time.Now()
	conj := append(append([]*term(nil), rel...), q)
	s, vals, errLine := e.sol().check(conj, varsOfMask(m))
	e.Stats.SolverTime += time.Since(t0)
	e.Stats.Queries++
	if debugDecisions && time.Since(t0) > 50*time.Millisecond {
		n := 0
		for _, c := range conj {
			n += len(c.String())
		}
		fmt.Fprintf(os.Stderr, "slow query %v: %d conjuncts, %d bytes, q=%s\n", time.Since(t0), len(conj), n, trunc(q.String(), 100))
		for _, c := range conj {
			if len(c.String()) > 20000 {
				fmt.Fprintf(os.Stderr, "   big %d: %s\n", len(c.String()), trunc(c.String(), 700))
			}
		}
	}
	switch s {
	case 1:
		e.Stats.Sat++
	case 0:
		e.Stats.Unsat++
	default:
		e.Stats.Unknown++
		if errLine != "" {
			e.Stats.Errors++
			fmt.Fprintf(os.Stderr, "solver error: %s\n", errLine)
		}
	}
	e.qcache[key] = qres{s, vals}
	return s, vals
}

func sigOf(alts []*term) uint64 {
	h := uint64(1469598103934665603)
	for _, a := range alts {
		h ^= uint64(a.id) + 0x9e3779b97f4a7c15
		h *= 1099511628211
	}
	return h
}

// choose picks one of the mutually exclusive, jointly exhaustive alternatives.
func (e *Explorer) choose(alts []*term) int {
	if e.pos < len(e.decs) {
		d := e.decs[e.pos]
		if d.sig != sigOf(alts) {
			panic(pathEnd{endDesync, fmt.Sprintf("decision %d differs on re-execution", e.pos)})
		}
		e.pos++
		c := d.feas[d.idx]
		e.addPC(alts[c])
		e.applyPatch(d.patch[d.idx])
		if d.unk[d.idx] {
			e.unk = true
		}
		return c
	}
	if debugDecisions {
		fmt.Fprintf(os.Stderr, "decision %d at %s: %s\n", e.pos, shortStack(), trunc(alts[0].String(), 200))
	}
	d := &decRec{sig: sigOf(alts)}
	for i, a := range alts {
		s, p := e.feasible(a)
		if s == 0 {
			continue
		}
		d.feas = append(d.feas, i)
		d.patch = append(d.patch, p)
		d.unk = append(d.unk, s < 0)
	}
	if len(d.feas) == 0 {
		panic(pathEnd{endDesync, "no feasible alternative"})
	}
	e.Decided++
	e.decs = append(e.decs, d)
	e.pos++
	c := d.feas[0]
	e.addPC(alts[c])
	e.applyPatch(d.patch[0])
	if d.unk[0] {
		e.unk = true
	}
	return c
}

// branch decides a symbolic condition.
func (e *Explorer) branch(c *term) bool {
	if c.isConst() {
		return c.c != 0
	}
	return e.choose([]*term{c, tnot(c)}) == 0
}

// concretize splits on the feasible values of t (at most MaxSplit).
func (e *Explorer) concretize(t *term) uint64 {
	if t.isConst() {
		return t.c
	}
	if e.pos < len(e.decs) {
		d := e.decs[e.pos]
		if d.sig != uint64(t.id)*2654435761+1 {
			panic(pathEnd{endDesync, fmt.Sprintf("value split %d differs on re-execution", e.pos)})
		}
		e.pos++
		v := d.vals[d.idx]
		e.addPC(teq(t, kconst(v, t.w)))
		e.applyPatch(d.patch[d.idx])
		return v
	}
	d := &decRec{sig: uint64(t.id)*2654435761 + 1}
	v0 := t.eval(e.model)
	d.vals = append(d.vals, v0)
	d.patch = append(d.patch, nil)
	d.feas = append(d.feas, 0)
	d.unk = append(d.unk, false)
	excl := []*term{tnot(teq(t, kconst(v0, t.w)))}
	saveModel := append([]uint64(nil), e.model...)
	for {
		q := tand(excl...)
		s, p := e.feasible(q)
		if s == 0 {
			break
		}
		if s < 0 {
			panic(pathEnd{endUnsupported, "value split: solver unknown"})
		}
		// value under patched model
		e.model = append(e.model[:0], saveModel...)
		e.applyPatch(p)
		v := t.eval(e.model)
		e.model = append(e.model[:0], saveModel...)
		if p == nil {
			// model hit cannot happen: v0 excluded and model evaluates to v0
			panic("concretize: inconsistent model hit")
		}
		d.vals = append(d.vals, v)
		d.patch = append(d.patch, p)
		d.feas = append(d.feas, len(d.feas))
		d.unk = append(d.unk, false)
		excl = append(excl, tnot(teq(t, kconst(v, t.w))))
		if len(d.vals) > e.MaxSplit {
			panic(pathEnd{endUnsupported, fmt.Sprintf("wide value split (> %d values) of %s", e.MaxSplit, trunc(t.String(), 200))})
		}
	}
	e.Decided++
	e.decs = append(e.decs, d)
	e.pos++
	e.addPC(teq(t, kconst(v0, t.w)))
	return v0
}

func trunc(s string, n int) string {
	if len(s) > n {
		return s[:n] + "..."
	}
	return s
}

// advance moves the DFS to the next unexplored path; false when exhausted.
func (e *Explorer) advance() bool {
	e.decs = e.decs[:e.pos]
	for len(e.decs) > 0 {
		top := e.decs[len(e.decs)-1]
		if top.idx+1 < len(top.feas) {
			top.idx++
			return true
		}
		e.decs = e.decs[:len(e.decs)-1]
	}
	return false
}

// ---------------------------------------------------------------------------
// Trail.

func setCell(addr *value, v value) {
	if ex != nil && ex.logging {
		ex.trail = append(ex.trail, trailEnt{kind: tkCell, addr: addr, old: *addr})
		if ex.par != nil {
			ex.par.access(addr, true)
		}
	}
	*addr = v
}

// setCellAtomic is setCell for sync/atomic operations (not a plain access).
func setCellAtomic(addr *value, v value) {
	if ex != nil && ex.logging {
		ex.trail = append(ex.trail, trailEnt{kind: tkCell, addr: addr, old: *addr})
	}
	*addr = v
}

func logCell(addr *value) {
	if ex != nil && ex.logging {
		ex.trail = append(ex.trail, trailEnt{kind: tkCell, addr: addr, old: *addr})
		if ex.par != nil {
			ex.par.access(addr, true)
		}
	}
}

func logMap(m map[value]value, key value) {
	if ex != nil && ex.logging {
		old, had := m[key]
		ex.trail = append(ex.trail, trailEnt{kind: tkMap, m: m, key: key, old: old, had: had})
	}
}

func logHashmap(hm *hashmap) {
	if ex != nil && ex.logging {
		// snapshot of bucket heads and chain structure (chains are small)
		cp := make(map[int]*entry, len(hm.table))
		for k, e := range hm.table {
			var head, tail *entry
			for ; e != nil; e = e.next {
				n := &entry{key: e.key, value: e.value}
				if head == nil {
					head = n
				} else {
					tail.next = n
				}
				tail = n
			}
			cp[k] = head
		}
		ex.trail = append(ex.trail, trailEnt{kind: tkHashmap, hm: hm, hmT: cp, hmL: hm.length})
	}
}

func logPool(p *value) {
	if ex != nil && ex.logging {
		ex.trail = append(ex.trail, trailEnt{kind: tkPool, addr: p, pool: ex.pools[p]})
	}
}

func (e *Explorer) undoTrail() {
	for i := len(e.trail) - 1; i >= 0; i-- {
		t := &e.trail[i]
		switch t.kind {
		case tkCell:
			*t.addr = t.old
		case tkMap:
			if t.had {
				t.m[t.key] = t.old
			} else {
				delete(t.m, t.key)
			}
		case tkHashmap:
			t.hm.table = t.hmT
			t.hm.length = t.hmL
		case tkPool:
			e.pools[t.addr] = t.pool
		}
	}
	e.trail = e.trail[:0]
}

// ---------------------------------------------------------------------------
// Running one path.

// RunPath executes f as one path of the current DFS state.
func (e *Explorer) RunPath(f func()) (res PathResult) {
	e.pc = e.pc[:0]
	e.bound = 0
	e.model = e.model[:0]
	e.pos = 0
	e.unk = false
	e.steps = 0
	e.work = 0
	e.reach = nil
	e.snaps = map[string]string{}
	e.snapVals = e.snapVals[:0]
	e.logging = true
	e.par = nil
	kind, msg := endOK, ""
	func() {
		defer func() {
			r := recover()
			if r == nil {
				return
			}
			switch p := r.(type) {
			case pathEnd:
				kind, msg = p.kind, p.msg
			case unsupportedErr:
				kind, msg = endUnsupported, p.msg
			case targetPanic:
				kind, msg = endPanic, "panic: "+toStringSym(p.v)
			case runtime.Error:
				m := p.Error()
				if strings.Contains(m, "interp.") {
					kind, msg = endUnsupported, "engine: "+m+"\n"+shortStack()+" TARGET "+targetStack()
				} else {
					kind, msg = endPanic, "runtime error: "+m
					if debugPaths {
						msg += "\n" + shortStack() + " TARGET " + targetStack()
					}
				}
			case string:
				if strings.HasPrefix(p, "unexpected") || strings.HasPrefix(p, "no code for function") || strings.HasPrefix(p, "cannot") || strings.HasPrefix(p, "unsupported") || strings.HasPrefix(p, "illegal") || strings.HasPrefix(p, "unknown built-in") || strings.HasPrefix(p, "comparing uncomparable") {
					kind, msg = endUnsupported, "engine: "+p+"\n"+shortStack()+" TARGET "+targetStack()
				} else {
					kind, msg = endPanic, "panic: "+p
				}
			default:
				kind, msg = endUnsupported, fmt.Sprintf("engine: %T %v\n%s", r, r, shortStack())
			}
		}()
		f()
	}()
	e.logging = false
	for _, sr := range e.snapVals {
		e.snaps[sr.label] = renderSnap(sr.v, e.model)
	}
	e.undoTrail()
	res.Kind = kind.String()
	res.Msg = msg
	res.Model = map[string]uint64{}
	for i, n := range symtab.varNames {
		res.Model[n] = e.modelVal(i)
	}
	res.pcTerms = append([]*term(nil), e.pc...)
	res.Reach = e.reach
	res.Snaps = e.snaps
	res.Decisions = e.pos
	res.Work = e.work
	res.Steps = e.steps
	res.UnkFeas = e.unk
	return
}

func shortStack() string {
	st := string(debug.Stack())
	lines := strings.Split(st, "\n")
	var out []string
	for _, l := range lines {
		if strings.Contains(l, "/interp/") && !strings.Contains(l, "explore.go") {
			out = append(out, strings.TrimSpace(l))
			if len(out) >= 8 {
				break
			}
		}
	}
	return strings.Join(out, " | ")
}

// Explore enumerates all paths of f. visit is called for every finished path;
// it returns false to stop early.
func (e *Explorer) Explore(f func(), maxPaths int, visit func(*PathResult) bool) (paths int, complete bool) {
	e.decs = e.decs[:0]
	for {
		r := e.RunPath(f)
		paths++
		if debugPaths {
			fmt.Fprintf(os.Stderr, "path %d kind=%s decisions=%d steps=%d msg=%.80s\n", paths, r.Kind, r.Decisions, r.Steps, r.Msg)
		}
		if !visit(&r) {
			return paths, false
		}
		if r.Kind == "desync" {
			return paths, false
		}
		if !e.advance() {
			return paths, true
		}
		if maxPaths > 0 && paths >= maxPaths {
			return paths, false
		}
	}
}

// PCString renders a path condition as one SMT-LIB2 conjunction.
func (r *PathResult) PCString() string {
	if len(r.pcTerms) == 0 {
		return "true"
	}
	parts := make([]string, len(r.pcTerms))
	for i, t := range r.pcTerms {
		parts[i] = t.String()
	}
	if len(parts) == 1 {
		return parts[0]
	}
	return "(and " + strings.Join(parts, " ") + ")"
}

// CheckSat runs an ad-hoc query given as SMT-LIB2 text over the declared
// variables (used for closure and known-region queries).
func (e *Explorer) CheckSat(assertion string, wantModel bool) (sat int8, model map[string]uint64) {
	s := e.sol()
	s.declareVars()
	t0 := time.Now()
	fmt.Fprintf(s.in, "(push 1)\n(assert %s)\n(check-sat)\n", assertion)
	s.in.Flush()
	line := s.readLine()
	errSeen := false
	for strings.HasPrefix(line, "(error") || line == "" {
		if line != "" {
			errSeen = true
			fmt.Fprintf(os.Stderr, "solver error: %s\n", line)
		}
		line = s.readLine()
	}
	e.Stats.Queries++
	switch {
	case errSeen:
		sat = -1
		e.Stats.Errors++
	case line == "sat":
		sat = 1
		e.Stats.Sat++
	case line == "unsat":
		sat = 0
		e.Stats.Unsat++
	default:
		sat = -1
		e.Stats.Unknown++
	}
	if sat == 1 && wantModel && len(symtab.varNames) > 0 {
		vars := make([]int, len(symtab.varNames))
		for i := range vars {
			vars[i] = i
		}
		fmt.Fprintf(s.in, "(get-value (%s))\n", strings.Join(symtab.varNames, " "))
		s.in.Flush()
		vals := parseValues(s.readSexp(), vars)
		model = map[string]uint64{}
		for _, vv := range vals {
			model[symtab.varNames[vv.v]] = vv.val
		}
	}
	fmt.Fprintln(s.in, "(pop 1)")
	e.Stats.SolverTime += time.Since(t0)
	return
}

// VarDecls returns SMT-LIB2 declarations of all symbolic variables.
func VarDecls() string {
	var sb strings.Builder
	for i, n := range symtab.varNames {
		if symtab.varWidth[i] == 0 {
			fmt.Fprintf(&sb, "(declare-const %s Bool)\n", n)
		} else {
			fmt.Fprintf(&sb, "(declare-const %s (_ BitVec %d))\n", n, symtab.varWidth[i])
		}
	}
	return sb.String()
}

func VarNames() []string { return append([]string(nil), symtab.varNames...) }

var debugPaths = os.Getenv("GOSYMX_DEBUG") != ""
var debugDecisions = os.Getenv("GOSYMX_DEBUG") == "2"
