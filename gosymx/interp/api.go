package interp

// Exported driver API: build an interpreter over an SSA program, call
// functions by name, construct harness items.

import (
	"fmt"
	"go/token"
	"go/types"
	"runtime"
	"sort"
	"strings"

	"golang.org/x/tools/go/ssa"
)

type Machine struct {
	i    *interpreter
	Prog *ssa.Program
}

type Value = value

// NewMachine creates the interpreter state and runs the package initialisers
// reachable from pkg (run-time-like packages are skipped, see skipInit).
func NewMachine(pkg *ssa.Package, sizes types.Sizes) (m *Machine, err error) {
	i := &interpreter{
		prog:       pkg.Prog,
		globals:    make(map[*ssa.Global]*value),
		sizes:      sizes,
		goroutines: 1,
		extCache:   make(map[*ssa.Function]externalFn),
		workFn:     make(map[*ssa.Function]bool),
	}
	if rp := i.prog.ImportedPackage("runtime"); rp != nil {
		i.runtimeErrorString = rp.Type("errorString").Object().Type()
	}
	initReflect(i)
	for _, p := range i.prog.AllPackages() {
		for _, mem := range p.Members {
			if g, ok := mem.(*ssa.Global); ok {
				cell := zero(mustDeref(g.Type()))
				i.globals[g] = &cell
			}
		}
	}
	m = &Machine{i: i, Prog: pkg.Prog}
	defer func() {
		if r := recover(); r != nil {
			err = fmt.Errorf("init: %v", describePanic(r))
		}
	}()
	call(i, nil, token.NoPos, pkg.Func("init"), nil)
	return m, nil
}

func describePanic(r any) string {
	switch p := r.(type) {
	case targetPanic:
		return "panic: " + toStringSym(p.v)
	case runtime.Error:
		return "runtime error: " + p.Error() + " @ " + shortStack() + " TARGET " + targetStack()
	case pathEnd:
		return p.kind.String() + ": " + p.msg
	case unsupportedErr:
		return p.Error()
	}
	return fmt.Sprintf("%v @ %s TARGET %s", r, shortStack(), targetStack())
}

// Call invokes fn with interpreter values.
func (m *Machine) Call(fn *ssa.Function, args ...Value) Value {
	return call(m.i, nil, token.NoPos, fn, args)
}

// CallProtected is Call with panics converted to errors.
func (m *Machine) CallProtected(fn *ssa.Function, args ...Value) (v Value, err error) {
	defer func() {
		if r := recover(); r != nil {
			err = fmt.Errorf("%s", describePanic(r))
		}
	}()
	return call(m.i, nil, token.NoPos, fn, args), nil
}

// NewStruct builds a pointer to a struct value of named type tname in pkg,
// with fields set from vals (string, int, bool).
func (m *Machine) NewStruct(pkg *ssa.Package, tname string, vals map[string]any) (Value, error) {
	tm := pkg.Type(tname)
	if tm == nil {
		return nil, fmt.Errorf("no type %s", tname)
	}
	st := tm.Type().Underlying().(*types.Struct)
	s := zero(st).(structure)
	for i := 0; i < st.NumFields(); i++ {
		f := st.Field(i)
		v, ok := vals[f.Name()]
		if !ok {
			continue
		}
		switch b := f.Type().Underlying().(type) {
		case *types.Basic:
			switch b.Kind() {
			case types.String:
				s[i] = fmt.Sprint(v)
			case types.Int:
				switch x := v.(type) {
				case int:
					s[i] = x
				case float64:
					s[i] = int(x)
				default:
					return nil, fmt.Errorf("field %s: want int, got %T", f.Name(), v)
				}
			case types.Bool:
				s[i] = v.(bool)
			default:
				return nil, fmt.Errorf("field %s: unsupported kind", f.Name())
			}
		default:
			return nil, fmt.Errorf("field %s: unsupported type", f.Name())
		}
	}
	var cell value = s
	return &cell, nil
}

// SetGlobalBool sets a package-level bool variable (e.g. simd.hasAVX2).
func (m *Machine) SetGlobal(pkgPath, name string, v any) error {
	p := m.Prog.ImportedPackage(pkgPath)
	if p == nil {
		return fmt.Errorf("no package %s", pkgPath)
	}
	g, ok := p.Members[name].(*ssa.Global)
	if !ok {
		return fmt.Errorf("no global %s.%s", pkgPath, name)
	}
	*m.i.globals[g] = v
	return nil
}

func SortedKeys(m map[string]bool) []string {
	out := make([]string, 0, len(m))
	for k := range m {
		out = append(out, k)
	}
	sort.Strings(out)
	return out
}

// BlockCov is the block coverage of one function of the code under check.
type BlockCov struct {
	File   string `json:"file"`
	Line   int    `json:"line"`
	Lines  []int  `json:"lines"`  // first source line of each basic block (0 = none)
	Hit    []bool `json:"hit"`    // executed at least once by this process
	Called bool   `json:"called"` // the function was entered at all
}

// Coverage reports, for every function of github.com/coregx/* in the program, which basic blocks this process
// has executed (set-up and harness runs alike, all paths).
func (m *Machine) Coverage() map[string]*BlockCov {
	out := map[string]*BlockCov{}
	all := map[*ssa.Function]bool{}
	var add func(fn *ssa.Function)
	add = func(fn *ssa.Function) {
		if fn == nil || all[fn] {
			return
		}
		all[fn] = true
		for _, a := range fn.AnonFuncs {
			add(a)
		}
	}
	for _, p := range m.Prog.AllPackages() {
		if !strings.HasPrefix(p.Pkg.Path(), "github.com/coregx/") {
			continue
		}
		for _, mem := range p.Members {
			switch x := mem.(type) {
			case *ssa.Function:
				add(x)
			case *ssa.Type:
				if n, ok := x.Type().(*types.Named); ok {
					for k := 0; k < n.NumMethods(); k++ {
						add(m.Prog.FuncValue(n.Method(k)))
					}
				}
			}
		}
	}
	for fn := range m.i.infos { // instantiations and anything else that actually ran
		add(fn)
	}
	for fn := range all {
		if fn.Blocks == nil || !isCoregxFn(fn) {
			continue
		}
		pos := m.Prog.Fset.Position(fn.Pos())
		bc := &BlockCov{File: pos.Filename, Line: pos.Line, Lines: make([]int, len(fn.Blocks)), Hit: make([]bool, len(fn.Blocks))}
		for bi, b := range fn.Blocks {
			for _, ins := range b.Instrs {
				if p := ins.Pos(); p.IsValid() {
					bc.Lines[bi] = m.Prog.Fset.Position(p).Line
					break
				}
			}
		}
		if inf, ok := m.i.infos[fn]; ok && inf.cov != nil {
			copy(bc.Hit, inf.cov)
			bc.Called = true
		}
		name := fn.String()
		if o, ok := out[name]; ok { // instantiations of one generic: union
			for k := range o.Hit {
				if k < len(bc.Hit) && bc.Hit[k] {
					o.Hit[k] = true
				}
			}
			o.Called = o.Called || bc.Called
			continue
		}
		out[name] = bc
	}
	return out
}
