package interp

// Two logical threads with interleavings explored at synchronisation
// operations, and a vector-clock happens-before monitor over plain memory
// accesses (C06). Exactly one logical thread runs at any time (baton passing
// between goroutines), so the explorer's state needs no locking.

import (
	"fmt"

	"golang.org/x/tools/go/ssa"
)

type vclock [2]uint32

func (a vclock) join(b vclock) vclock {
	for i := range a {
		if b[i] > a[i] {
			a[i] = b[i]
		}
	}
	return a
}

type epoch struct {
	tid   int8 // -1 = none
	clock uint32
	fn    *ssa.Function
}

type shadow struct {
	w epoch
	r [2]epoch
}

type lthread struct {
	id     int
	resume chan struct{}
	done   bool
	vc     vclock
	fr     *frame
}

type parState struct {
	th       [2]*lthread
	cur      int
	mainCh   chan struct{}
	abort    bool
	panicV   any
	shadows  map[*value]*shadow
	syncVC   map[*value]vclock
	itemVC   map[*value]vclock
	inAtomic bool
	races    int
	switches int
}

type parAbort struct{}

// access records a plain (non-atomic) memory access of the running thread.
func (p *parState) access(addr *value, write bool) {
	if p.inAtomic || addr == nil {
		return
	}
	t := p.th[p.cur]
	sh := p.shadows[addr]
	if sh == nil {
		sh = &shadow{w: epoch{tid: -1}, r: [2]epoch{{tid: -1}, {tid: -1}}}
		p.shadows[addr] = sh
	}
	var fn *ssa.Function
	if curFr != nil {
		fn = curFr.fn
	}
	o := 1 - t.id
	if sh.w.tid == int8(o) && sh.w.clock > t.vc[o] {
		p.race(sh.w, "write", fn, map[bool]string{true: "write", false: "read"}[write])
	}
	if write {
		if sh.r[o].tid == int8(o) && sh.r[o].clock > t.vc[o] {
			p.race(sh.r[o], "read", fn, "write")
		}
		sh.w = epoch{int8(t.id), t.vc[t.id], fn}
	} else {
		sh.r[t.id] = epoch{int8(t.id), t.vc[t.id], fn}
	}
}

func fnName(f *ssa.Function) string {
	if f == nil {
		return "?"
	}
	for f.Parent() != nil {
		f = f.Parent()
	}
	return f.String()
}

func (p *parState) race(old epoch, oldKind string, fn *ssa.Function, kind string) {
	p.races++
	a, b := oldKind+" in "+fnName(old.fn), kind+" in "+fnName(fn)
	if a > b {
		a, b = b, a
	}
	panic(pathEnd{endFail, fmt.Sprintf("C06 data race: %s / %s (no happens-before edge between the two calls)", a, b)})
}

// syncOp: acquire+release on the synchronisation object at addr.
func (p *parState) syncOp(addr *value) {
	t := p.th[p.cur]
	t.vc = t.vc.join(p.syncVC[addr])
	p.syncVC[addr] = t.vc // release: everything up to here
	t.vc[t.id]++          // later events of this thread are not covered by that release
}

func (p *parState) release(item *value) {
	t := p.th[p.cur]
	p.itemVC[item] = t.vc
	t.vc[t.id]++
}

func (p *parState) acquire(item *value) {
	t := p.th[p.cur]
	t.vc = t.vc.join(p.itemVC[item])
}

// yield gives the other thread a chance to run (a scheduler decision).
func (p *parState) yield() {
	o := 1 - p.cur
	if p.th[o].done || p.switches >= ex.MaxPreempt {
		return
	}
	if ex.chooseFree(2) == 1 {
		p.switchTo(o)
	}
}

func (p *parState) switchTo(o int) {
	me := p.th[p.cur]
	me.fr = curFr
	p.cur = o
	p.switches++
	curFr = p.th[o].fr
	p.th[o].resume <- struct{}{}
	<-me.resume
	if p.abort {
		panic(parAbort{})
	}
}

// chooseFree is an unconstrained n-way choice recorded in the decision stack.
func (e *Explorer) chooseFree(n int) int {
	if e.pos < len(e.decs) {
		d := e.decs[e.pos]
		if d.sig != uint64(n)*7919+3 {
			panic(pathEnd{endDesync, fmt.Sprintf("free choice %d differs on re-execution", e.pos)})
		}
		e.pos++
		return d.feas[d.idx]
	}
	d := &decRec{sig: uint64(n)*7919 + 3}
	for i := 0; i < n; i++ {
		d.feas = append(d.feas, i)
		d.patch = append(d.patch, nil)
		d.unk = append(d.unk, false)
	}
	e.decs = append(e.decs, d)
	e.pos++
	return 0
}

func runPar(fr *frame, f, g value) {
	if ex.par != nil {
		panic(unsupported("nested verif.Par"))
	}
	p := &parState{mainCh: make(chan struct{}), shadows: map[*value]*shadow{}, syncVC: map[*value]vclock{}, itemVC: map[*value]vclock{}}
	ex.par = p
	defer func() { ex.par = nil }()
	fns := [2]value{f, g}
	for i := 0; i < 2; i++ {
		t := &lthread{id: i, resume: make(chan struct{})}
		t.vc[i] = 1
		p.th[i] = t
		go func(t *lthread, fn value) {
			<-t.resume
			defer func() {
				r := recover()
				if _, isAbort := r.(parAbort); r != nil && !isAbort && p.panicV == nil {
					p.panicV = r
				}
				t.done = true
				o := p.th[1-t.id]
				if p.panicV != nil {
					p.abort = true
				}
				if !o.done {
					p.cur = o.id
					curFr = o.fr
					o.resume <- struct{}{}
					return
				}
				p.mainCh <- struct{}{}
			}()
			if p.abort {
				return
			}
			call(fr.i, nil, 0, fn, nil)
		}(t, fns[i])
	}
	savedFr := curFr
	p.cur = 0
	p.th[0].resume <- struct{}{}
	<-p.mainCh
	curFr = savedFr
	if p.panicV != nil {
		panic(p.panicV)
	}
}

func init() {
	externals[verifPkg+".Par"] = func(fr *frame, args []value) value {
		runPar(fr, args[0], args[1])
		return nil
	}
}
