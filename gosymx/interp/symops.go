package interp

// Symbolic front ends of the interpreter's data operations.

import (
	"bytes"
	"fmt"
	"go/token"
	"go/types"
	"sort"
	"strings"

	"golang.org/x/tools/go/ssa"
)

// symstr is an immutable string whose bytes may be symbolic.
type symstr []value

// normStr turns a symstr without symbolic cells into an ordinary string.
func normStr(s symstr) value {
	b := make([]byte, len(s))
	for i, c := range s {
		cb, ok := c.(byte)
		if !ok {
			return s
		}
		b[i] = cb
	}
	return string(b)
}

func strCells(v value) []value {
	switch s := v.(type) {
	case string:
		out := make([]value, len(s))
		for i := 0; i < len(s); i++ {
			out[i] = s[i]
		}
		return out
	case symstr:
		return []value(s)
	case []value:
		return s
	}
	panic(fmt.Sprintf("strCells: %T", v))
}

func isSymAgg(v value) bool {
	_, ok := v.(symstr)
	return ok
}

func noteSym(fr *frame) {
	if ex != nil && ex.trackFns && fr.fn != nil {
		ex.FuncsSym[fr.fn.String()] = true
	}
}

func isCoregxFn(f *ssa.Function) bool {
	for f.Parent() != nil {
		f = f.Parent()
	}
	if o := f.Origin(); o != nil {
		f = o
	}
	return f.Pkg != nil && strings.HasPrefix(f.Pkg.Pkg.Path(), "github.com/coregx/")
}

func isWorkFn(fr *frame) bool {
	w, ok := fr.i.workFn[fr.fn]
	if !ok {
		f := fr.fn
		for f.Parent() != nil {
			f = f.Parent()
		}
		if o := f.Origin(); o != nil {
			f = o
		}
		w = f.Pkg != nil && strings.HasPrefix(f.Pkg.Pkg.Path(), "github.com/coregx/")
		fr.i.workFn[fr.fn] = w
	}
	return w
}

// byteEq returns a (possibly symbolic) bool for a == b on byte cells.
func byteEq(a, b value) value {
	if isSym(a) || isSym(b) {
		return wrapTerm(teq(termOf(a, 8), termOf(b, 8)), types.Bool)
	}
	return a.(byte) == b.(byte)
}

// truth forces a (possibly symbolic) bool by a decision.
func truth(v value) bool {
	if s, ok := v.(symv); ok {
		return ex.branch(s.t)
	}
	return v.(bool)
}

// symAggBinop: string operations with a symbolic-string operand.
func symAggBinop(op token.Token, t types.Type, x, y value) value {
	a, b := strCells(x), strCells(y)
	switch op {
	case token.ADD:
		return normStr(symstr(append(append([]value(nil), a...), b...)))
	case token.EQL, token.NEQ:
		var r *term
		if len(a) != len(b) {
			r = kbool(false)
		} else {
			cs := make([]*term, 0, len(a))
			for i := range a {
				cs = append(cs, teq(termOf(a[i], 8), termOf(b[i], 8)))
			}
			r = tand(append(cs, kbool(true))...)
		}
		if op == token.NEQ {
			r = tnot(r)
		}
		return wrapTerm(r, types.Bool)
	case token.LSS, token.LEQ, token.GTR, token.GEQ:
		// lexicographic comparison decided byte by byte
		n := len(a)
		if len(b) < n {
			n = len(b)
		}
		cmp := 0
		for i := 0; i < n && cmp == 0; i++ {
			if truth(byteEq(a[i], b[i])) {
				continue
			}
			lt := wrapTerm(tult(termOf(a[i], 8), termOf(b[i], 8)), types.Bool)
			if truth(lt) {
				cmp = -1
			} else {
				cmp = 1
			}
		}
		if cmp == 0 {
			cmp = len(a) - len(b)
		}
		switch op {
		case token.LSS:
			return cmp < 0
		case token.LEQ:
			return cmp <= 0
		case token.GTR:
			return cmp > 0
		default:
			return cmp >= 0
		}
	}
	panic(unsupported("symbolic string op " + op.String()))
}

// divGuard forks out the division-by-zero panic for a symbolic divisor.
func divGuard(y value) {
	sy, ok := y.(symv)
	if !ok {
		return
	}
	if ex.branch(teq(sy.t, kconst(0, sy.t.w))) {
		panic("runtime error: integer divide by zero")
	}
}

// concKey makes a map key concrete (value split).
func concKey(k value) value {
	switch x := k.(type) {
	case symv:
		return mkConc(x.k, ex.concretize(x.t))
	case symstr:
		b := make([]byte, len(x))
		for i, c := range x {
			if sc, ok := c.(symv); ok {
				b[i] = byte(ex.concretize(sc.t))
			} else {
				b[i] = c.(byte)
			}
		}
		return string(b)
	}
	return k
}

func groupKey(c value) (string, bool) {
	switch x := c.(type) {
	case bool, int, int8, int16, int32, int64, uint, uint8, uint16, uint32, uint64, uintptr, string, float32, float64:
		return fmt.Sprintf("%T:%v", x, x), true
	case *value:
		return fmt.Sprintf("p:%p", x), true
	}
	return "", false
}

// symIndex resolves a symbolic index into cells by one decision whose
// alternatives are the groups of indices selecting equal scalar values
// (aggregate or symbolic cells form singleton groups), plus "out of range".
func symIndex(idx symv, cells []value) int {
	w, _ := kindInfo(idx.k)
	n := len(cells)
	groups := map[string][]int{}
	var order []string
	for i := 0; i < n; i++ {
		k, ok := groupKey(cells[i])
		if !ok {
			k = fmt.Sprintf("#%d", i)
		}
		if _, seen := groups[k]; !seen {
			order = append(order, k)
		}
		groups[k] = append(groups[k], i)
	}
	alts := make([]*term, 0, len(order)+1)
	for _, k := range order {
		g := groups[k]
		var ors []*term
		for i := 0; i < len(g); {
			j := i
			for j+1 < len(g) && g[j+1] == g[j]+1 {
				j++
			}
			ors = append(ors, tinrange(idx.t, uint64(g[i]), uint64(g[j])))
			i = j + 1
		}
		alts = append(alts, tor(ors...))
	}
	// out of range (as unsigned; covers negative signed indices)
	if w >= 64 || uint64(n) <= mask(w) {
		alts = append(alts, tule(kconst(uint64(n), w), idx.t))
	} else {
		alts = append(alts, kbool(false))
	}
	c := ex.choose(alts)
	if c == len(order) {
		panic(fmt.Sprintf("runtime error: index out of range [symbolic] with length %d", n))
	}
	g := groups[order[c]]
	if len(g) == 1 {
		return g[0]
	}
	// representative: the index the current model selects
	mv := int(idx.t.eval(ex.model))
	for _, i := range g {
		if i == mv {
			return i
		}
	}
	return g[0]
}

func symMin(x, y value) value {
	if isSym(x) || isSym(y) {
		k, _ := kindOfValue(x)
		w, signed := kindInfo(k)
		a, b := termOf(x, w), termOf(y, w)
		lt := opBvUlt
		if signed {
			lt = opBvSlt
		}
		return wrapTerm(tite(mk(lt, 0, b, a), b, a), k)
	}
	return min(x, y)
}

func symMax(x, y value) value {
	if isSym(x) || isSym(y) {
		k, _ := kindOfValue(x)
		w, signed := kindInfo(k)
		a, b := termOf(x, w), termOf(y, w)
		lt := opBvUlt
		if signed {
			lt = opBvSlt
		}
		return wrapTerm(tite(mk(lt, 0, a, b), b, a), k)
	}
	return max(x, y)
}

// ---------------------------------------------------------------------------
// append with the gc runtime's growth policy.

var sizeClasses = []int{0, 8, 16, 24, 32, 48, 64, 80, 96, 112, 128, 144, 160, 176, 192, 208, 224, 240, 256, 288, 320, 352, 384, 416, 448, 480, 512, 576, 640, 704, 768, 896, 1024, 1152, 1280, 1408, 1536, 1792, 2048, 2304, 2688, 3072, 3200, 3456, 4096, 4864, 5376, 6144, 6528, 6784, 6912, 8192, 9472, 9728, 10240, 10880, 12288, 13568, 14336, 16384, 18432, 19072, 20480, 21760, 24576, 27264, 28672, 32768}

func roundupsize(size int, noscan bool) int {
	reqSize := size
	if reqSize <= 32768-8 {
		if !noscan && reqSize > 512 {
			reqSize += 8
		}
		for _, c := range sizeClasses {
			if c >= reqSize {
				return c - (reqSize - size)
			}
		}
	}
	reqSize = size
	const page = 8192
	return (reqSize + page - 1) / page * page
}

func hasPointers(t types.Type) bool {
	switch u := t.Underlying().(type) {
	case *types.Basic:
		return u.Kind() == types.String || u.Kind() == types.UnsafePointer
	case *types.Array:
		return hasPointers(u.Elem())
	case *types.Struct:
		for i := 0; i < u.NumFields(); i++ {
			if hasPointers(u.Field(i).Type()) {
				return true
			}
		}
		return false
	}
	return true
}

func nextSliceCap(newLen, oldCap int) int {
	newcap := oldCap
	doublecap := newcap + newcap
	if newLen > doublecap {
		return newLen
	}
	const threshold = 256
	if oldCap < threshold {
		return doublecap
	}
	for {
		newcap += (newcap + 3*threshold) >> 2
		if uint(newcap) >= uint(newLen) {
			break
		}
	}
	if newcap <= 0 {
		return newLen
	}
	return newcap
}

func appendSlice(caller *frame, fn *ssa.Builtin, s, more []value) value {
	if len(more) == 0 {
		return s
	}
	newLen := len(s) + len(more)
	if newLen <= cap(s) {
		r := s[:newLen]
		for i := len(s); i < newLen; i++ {
			logCell(&r[i])
		}
		copy(r[len(s):], more)
		return r
	}
	var et types.Type
	if sl, ok := fn.Type().(*types.Signature).Params().At(0).Type().Underlying().(*types.Slice); ok {
		et = sl.Elem()
	}
	newcap := nextSliceCap(newLen, cap(s))
	if et != nil && caller != nil {
		es := int(caller.i.sizes.Sizeof(et))
		if es > 0 {
			mem := roundupsize(newcap*es, !hasPointers(et))
			newcap = mem / es
		}
	}
	r := make([]value, newLen, newcap)
	copy(r, s)
	copy(r[len(s):], more)
	if et != nil {
		for i := newLen; i < newcap; i++ {
			r[:newcap][i] = zero(et)
		}
	}
	return r
}

// ---------------------------------------------------------------------------
// Deterministic map iteration (keys in sorted order).

type sliceIter struct {
	keys []value
	vals []value
	i    int
}

func (it *sliceIter) next() tuple {
	if it.i >= len(it.keys) {
		return []value{false, nil, nil}
	}
	k, v := it.keys[it.i], it.vals[it.i]
	it.i++
	return []value{true, k, v}
}

func keyLess(a, b value) bool {
	switch x := a.(type) {
	case string:
		if y, ok := b.(string); ok {
			return x < y
		}
	case bool:
		if y, ok := b.(bool); ok {
			return !x && y
		}
	case float64:
		if y, ok := b.(float64); ok {
			return x < y
		}
	case float32:
		if y, ok := b.(float32); ok {
			return x < y
		}
	}
	ka, oka := kindOfValue(a)
	kb, okb := kindOfValue(b)
	if oka && okb && !isSym(a) && !isSym(b) {
		_, sa := kindInfo(ka)
		_, sb := kindInfo(kb)
		if sa || sb {
			return asInt64(a) < asInt64(b)
		}
		return uint64(asInt64(a)) < uint64(asInt64(b))
	}
	return toString(a) < toString(b)
}

func newSortedMapIter(m map[value]value) iter {
	it := &sliceIter{}
	for k := range m {
		it.keys = append(it.keys, k)
	}
	sort.SliceStable(it.keys, func(i, j int) bool { return keyLess(it.keys[i], it.keys[j]) })
	for _, k := range it.keys {
		it.vals = append(it.vals, m[k])
	}
	return it
}

func newSortedHashmapIter(m *hashmap) iter {
	it := &sliceIter{}
	type kv struct {
		k, v value
		s    string
	}
	var all []kv
	for _, e := range m.entries() {
		for ; e != nil; e = e.next {
			all = append(all, kv{e.key, e.value, toString(e.key)})
		}
	}
	sort.SliceStable(all, func(i, j int) bool { return all[i].s < all[j].s })
	for _, x := range all {
		it.keys = append(it.keys, x.k)
		it.vals = append(it.vals, x.v)
	}
	return it
}

// toStringSym prints values, showing symbolic scalars by their term.
func toStringSym(v value) string {
	var b bytes.Buffer
	writeValueSym(&b, v, 0)
	return b.String()
}

func writeValueSym(buf *bytes.Buffer, v value, depth int) {
	if depth > 4 {
		buf.WriteString("...")
		return
	}
	switch v := v.(type) {
	case symv:
		buf.WriteString(trunc(v.t.String(), 80))
	case symstr:
		buf.WriteString("symstr[")
		for i, c := range v {
			if i > 0 {
				buf.WriteByte(' ')
			}
			writeValueSym(buf, c, depth+1)
		}
		buf.WriteByte(']')
	case iface:
		writeValueSym(buf, v.v, depth+1)
	case structure:
		buf.WriteByte('{')
		for i, e := range v {
			if i > 0 {
				buf.WriteByte(' ')
			}
			writeValueSym(buf, e, depth+1)
		}
		buf.WriteByte('}')
	case []value:
		buf.WriteByte('[')
		for i, e := range v {
			if i > 0 {
				buf.WriteByte(' ')
			}
			writeValueSym(buf, e, depth+1)
		}
		buf.WriteByte(']')
	case *value:
		if v == nil {
			buf.WriteString("<nil>")
		} else {
			buf.WriteByte('&')
			writeValueSym(buf, *v, depth+1)
		}
	default:
		writeValue(buf, v)
	}
}

var onlyLoadedCache = map[*ssa.IndexAddr]bool{}

// onlyLoaded reports whether the address computed by instr is used only by
// loads (so that indices selecting equal values may be merged).
func onlyLoaded(instr *ssa.IndexAddr) bool {
	if r, ok := onlyLoadedCache[instr]; ok {
		return r
	}
	r := true
	if refs := instr.Referrers(); refs != nil {
		for _, u := range *refs {
			if uo, ok := u.(*ssa.UnOp); ok && uo.Op == token.MUL {
				continue
			}
			if _, ok := u.(*ssa.DebugRef); ok {
				continue
			}
			r = false
			break
		}
	}
	onlyLoadedCache[instr] = r
	return r
}

// encodeRuneSym returns the UTF-8 encoding of a symbolic rune; the length class
// is fixed by decisions, the bytes are terms (utf8.EncodeRune semantics:
// surrogates and out-of-range values encode U+FFFD).
func encodeRuneSym(sv symv) []value {
	w, _ := kindInfo(sv.k)
	t := resize(sv.t, 32, true)
	_ = w
	k32 := func(c uint64) *term { return kconst(c, 32) }
	b8 := func(x *term) value { return wrapTerm(mk(opExtract, 8, x), types.Uint8) }
	shr := func(x *term, n uint64) *term { return mk(opBvLshr, 32, x, k32(n)) }
	and := func(x *term, m uint64) *term { return mk(opBvAnd, 32, x, k32(m)) }
	or := func(x *term, m uint64) *term { return mk(opBvOr, 32, x, k32(m)) }
	ult := func(x *term, c uint64) *term { return tult(x, k32(c)) }
	switch {
	case ex.branch(ult(t, 0x80)):
		return []value{b8(t)}
	case ex.branch(ult(t, 0x800)):
		return []value{b8(or(shr(t, 6), 0xC0)), b8(or(and(t, 0x3F), 0x80))}
	case ex.branch(tor(tand(tule(k32(0xD800), t), ult(t, 0xE000)), tule(k32(0x110000), t))):
		return []value{byte(0xEF), byte(0xBF), byte(0xBD)}
	case ex.branch(ult(t, 0x10000)):
		return []value{b8(or(shr(t, 12), 0xE0)), b8(or(and(shr(t, 6), 0x3F), 0x80)), b8(or(and(t, 0x3F), 0x80))}
	}
	return []value{b8(or(shr(t, 18), 0xF0)), b8(or(and(shr(t, 12), 0x3F), 0x80)), b8(or(and(shr(t, 6), 0x3F), 0x80)), b8(or(and(t, 0x3F), 0x80))}
}
