package interp

// Intrinsics installed after the stock table (file name sorts last):
// run-time stubs, symbolic-capable byte/string primitives, the sync.Pool and
// sync/atomic models, and the harness API (package verifh/verif).

import (
	"fmt"
	"go/types"
	"sort"
	"strconv"
	"strings"
	"unsafe"

	"golang.org/x/tools/go/ssa"
)

const verifPkg = "verifh/verif"

func init() {
	// Stock shortcuts that assume concrete data: drop them so that the real
	// source is interpreted (or replaced below by symbolic-capable versions).
	for _, n := range []string{
		"sort.Float64s", "sort.Ints", "sort.Strings",
		"strconv.Atoi", "strconv.Itoa", "strconv.FormatFloat",
		"strings.Count", "strings.EqualFold", "strings.Index", "strings.IndexByte",
		"strings.Replace", "strings.ToLower",
		"unicode/utf8.DecodeRuneInString", "bytes.Equal", "bytes.IndexByte",
		"fmt.Sprint",
	} {
		delete(externals, n)
	}

	id := func(fr *frame, args []value) value { return args[0] }
	externals["internal/abi.NoEscape"] = id
	externals["internal/abi.Escape"] = id
	externals["runtime.KeepAlive"] = func(fr *frame, args []value) value { return nil }
	externals["runtime.SetFinalizer"] = func(fr *frame, args []value) value { return nil }
	externals["internal/bytealg.MakeNoZero"] = func(fr *frame, args []value) value {
		n := int(asInt64(args[0]))
		s := make([]value, n)
		for i := range s {
			s[i] = byte(0)
		}
		return s
	}
	externals["os.Getenv"] = func(fr *frame, args []value) value { return "" }
	externals["internal/godebug.(*Setting).Value"] = func(fr *frame, args []value) value { return "" }
	externals["(*internal/godebug.Setting).Value"] = func(fr *frame, args []value) value { return "" }
	externals["(*internal/godebug.Setting).IncNonDefault"] = func(fr *frame, args []value) value { return nil }

	// errors.As / errors.Is on interpreter interfaces (reflect-free model)
	externals["errors.As"] = func(fr *frame, args []value) value {
		err, ok := args[0].(iface)
		tgt, ok2 := args[1].(iface)
		if !ok || !ok2 || tgt.t == nil {
			panic("errors.As: bad arguments")
		}
		pt, isPtr := tgt.t.Underlying().(*types.Pointer)
		if !isPtr {
			panic("errors.As: target must be a non-nil pointer")
		}
		T := pt.Elem()
		for depth := 0; err.t != nil && depth < 50; depth++ {
			if types.AssignableTo(err.t, T) {
				cell := tgt.v.(*value)
				if _, isI := T.Underlying().(*types.Interface); isI {
					setCell(cell, err)
				} else {
					setCell(cell, err.v)
				}
				return true
			}
			next, okU := unwrapErr(fr, err)
			if !okU {
				return false
			}
			err = next
		}
		return false
	}
	externals["errors.Is"] = func(fr *frame, args []value) value {
		err, ok := args[0].(iface)
		tgt, ok2 := args[1].(iface)
		if !ok || !ok2 {
			return false
		}
		for depth := 0; err.t != nil && depth < 50; depth++ {
			if tgt.t != nil && types.Identical(err.t, tgt.t) {
				if pe, isP := err.v.(*value); isP {
					if pt, isP2 := tgt.v.(*value); isP2 && pe == pt {
						return true
					}
				} else if equals(err.t, err.v, tgt.v) {
					return true
				}
			}
			next, okU := unwrapErr(fr, err)
			if !okU {
				return false
			}
			err = next
		}
		return tgt.t == nil && err.t == nil
	}

	// ---- sync/atomic on interpreter cells ----
	swap := func(fr *frame, args []value) value {
		addr := args[0].(*value)
		ex.syncEvent("swap", addr)
		old := *addr
		setCellAtomic(addr, args[1])
		return old
	}
	cas := func(fr *frame, args []value) value {
		addr := args[0].(*value)
		ex.syncEvent("cas", addr)
		if scalarEq(*addr, args[1]) {
			setCellAtomic(addr, args[2])
			return true
		}
		return false
	}
	load := func(fr *frame, args []value) value {
		addr := args[0].(*value)
		ex.syncEvent("load", addr)
		return *addr
	}
	storeF := func(fr *frame, args []value) value {
		addr := args[0].(*value)
		ex.syncEvent("store", addr)
		setCellAtomic(addr, args[1])
		return nil
	}
	add := func(fr *frame, args []value) value {
		addr := args[0].(*value)
		ex.syncEvent("add", addr)
		var r value
		if isSym(*addr) || isSym(args[1]) {
			k, _ := kindOfValue(*addr)
			w, _ := kindInfo(k)
			r = wrapTerm(mk(opBvAdd, w, termOf(*addr, w), termOf(args[1], w)), k)
		} else {
			r = binopAdd(*addr, args[1])
		}
		setCellAtomic(addr, r)
		return r
	}
	for _, n := range []string{"Int32", "Int64", "Uint32", "Uint64", "Uintptr", "Pointer"} {
		externals["sync/atomic.Swap"+n] = swap
		externals["sync/atomic.CompareAndSwap"+n] = cas
		externals["sync/atomic.Load"+n] = load
		externals["sync/atomic.Store"+n] = storeF
		if n != "Pointer" {
			externals["sync/atomic.Add"+n] = add
		}
	}
	// internal/runtime/atomic is used by internal/sync; map the few entry points.
	externals["internal/runtime/atomic.Cas"] = cas
	externals["internal/runtime/atomic.Xchg"] = swap
	externals["internal/runtime/atomic.Xadd"] = add
	externals["internal/runtime/atomic.Load"] = load
	externals["internal/runtime/atomic.Store"] = storeF

	// ---- sync.Pool model: LIFO list per pool ----
	externals["(*sync.Pool).Get"] = func(fr *frame, args []value) value {
		p := args[0].(*value)
		ex.syncEvent("pool.get", p)
		lst := ex.pools[p]
		if n := len(lst); n > 0 && !ex.poolMiss(p) {
			v := lst[n-1]
			logPool(p)
			ex.pools[p] = lst[: n-1 : n-1]
			if ex.par != nil {
				if it, ok := v.(iface); ok {
					if pv, ok := it.v.(*value); ok {
						ex.par.acquire(pv)
					}
				}
			}
			return v
		}
		st := (*p).(structure)
		newf := st[len(st)-1]
		switch f := newf.(type) {
		case nil:
			return iface{}
		case *ssa.Function:
			if f == nil {
				return iface{}
			}
		case *closure:
			if f == nil {
				return iface{}
			}
		}
		return call(fr.i, fr, 0, newf, nil)
	}
	externals["(*sync.Pool).Put"] = func(fr *frame, args []value) value {
		p := args[0].(*value)
		ex.syncEvent("pool.put", p)
		if it, ok := args[1].(iface); ok && it.t == nil {
			return nil
		}
		if ex.par != nil {
			if it, ok := args[1].(iface); ok {
				if pv, ok := it.v.(*value); ok {
					ex.par.release(pv)
				}
			}
		}
		logPool(p)
		old := ex.pools[p]
		nl := make([]value, len(old)+1)
		copy(nl, old)
		nl[len(old)] = args[1]
		ex.pools[p] = nl
		return nil
	}

	// ---- byte / string primitives (symbolic-capable, defined by decisions) ----
	indexByte := func(fr *frame, args []value) value {
		cells := strCells(args[0])
		for i, c := range cells {
			if truth(byteEq(c, args[1])) {
				return i
			}
		}
		return -1
	}
	for _, n := range []string{"bytes.IndexByte", "strings.IndexByte", "internal/bytealg.IndexByte", "internal/bytealg.IndexByteString"} {
		externals[n] = indexByte
	}
	lastIndexByte := func(fr *frame, args []value) value {
		cells := strCells(args[0])
		for i := len(cells) - 1; i >= 0; i-- {
			if truth(byteEq(cells[i], args[1])) {
				return i
			}
		}
		return -1
	}
	externals["internal/bytealg.LastIndexByte"] = lastIndexByte
	externals["internal/bytealg.LastIndexByteString"] = lastIndexByte
	externals["bytes.LastIndexByte"] = lastIndexByte
	externals["strings.LastIndexByte"] = lastIndexByte
	equal := func(fr *frame, args []value) value {
		a, b := strCells(args[0]), strCells(args[1])
		if len(a) != len(b) {
			return false
		}
		for i := range a {
			if !truth(byteEq(a[i], b[i])) {
				return false
			}
		}
		return true
	}
	externals["bytes.Equal"] = equal
	externals["internal/bytealg.Equal"] = equal
	hasPrefixAt := func(h []value, at int, n []value) bool {
		if at+len(n) > len(h) {
			return false
		}
		for j := range n {
			if !truth(byteEq(h[at+j], n[j])) {
				return false
			}
		}
		return true
	}
	index := func(fr *frame, args []value) value {
		h, n := strCells(args[0]), strCells(args[1])
		for i := 0; i+len(n) <= len(h); i++ {
			if hasPrefixAt(h, i, n) {
				return i
			}
		}
		return -1
	}
	for _, n := range []string{"bytes.Index", "strings.Index", "internal/bytealg.Index", "internal/bytealg.IndexString"} {
		externals[n] = index
	}
	// LastIndex is a Rabin-Karp loop in package bytes: with a symbolic byte under the rolling hash the terms grow with
	// every step. Defined here by decisions on byte equalities, like Index.
	lastIndex := func(fr *frame, args []value) value {
		h, n := strCells(args[0]), strCells(args[1])
		for i := len(h) - len(n); i >= 0; i-- {
			if hasPrefixAt(h, i, n) {
				return i
			}
		}
		return -1
	}
	for _, n := range []string{"bytes.LastIndex", "strings.LastIndex", "internal/bytealg.LastIndexRabinKarp", "internal/bytealg.IndexRabinKarp"} {
		if strings.HasSuffix(n, "IndexRabinKarp") && !strings.Contains(n, "Last") {
			externals[n] = index
		} else {
			externals[n] = lastIndex
		}
	}
	count := func(fr *frame, args []value) value {
		c := 0
		for _, x := range strCells(args[0]) {
			if truth(byteEq(x, args[1])) {
				c++
			}
		}
		return c
	}
	externals["internal/bytealg.Count"] = count
	externals["internal/bytealg.CountString"] = count
	externals["internal/bytealg.Compare"] = func(fr *frame, args []value) value {
		a, b := strCells(args[0]), strCells(args[1])
		n := len(a)
		if len(b) < n {
			n = len(b)
		}
		for i := 0; i < n; i++ {
			if truth(byteEq(a[i], b[i])) {
				continue
			}
			if truth(wrapTerm(tult(termOf(a[i], 8), termOf(b[i], 8)), types.Bool)) {
				return -1
			}
			return 1
		}
		switch {
		case len(a) < len(b):
			return -1
		case len(a) > len(b):
			return 1
		}
		return 0
	}
	externals["bytes.Compare"] = externals["internal/bytealg.Compare"]
	externals["internal/stringslite.Index"] = index
	externals["internal/stringslite.IndexByte"] = indexByte

	// math/bits: count/scan functions as terms when symbolic.
	for _, n := range []string{"TrailingZeros64", "TrailingZeros32", "TrailingZeros16", "TrailingZeros8", "TrailingZeros",
		"LeadingZeros64", "LeadingZeros32", "LeadingZeros16", "LeadingZeros8", "LeadingZeros",
		"Len64", "Len32", "Len16", "Len8", "Len", "OnesCount64", "OnesCount32", "OnesCount16", "OnesCount8", "OnesCount"} {
		name := n
		externals["math/bits."+n] = func(fr *frame, args []value) value { return bitsFn(name, args[0]) }
	}

	// ---- harness API ----
	externals[verifPkg+".Bytes"] = func(fr *frame, args []value) value {
		name, n := args[0].(string), int(asInt64(args[1]))
		cells := make([]value, n)
		for i := range cells {
			cells[i] = symv{newVar(fmt.Sprintf("%s%d", name, i), 8), types.Uint8}
		}
		return cells
	}
	externals[verifPkg+".Byte"] = func(fr *frame, args []value) value {
		return symv{newVar(args[0].(string), 8), types.Uint8}
	}
	externals[verifPkg+".Bool"] = func(fr *frame, args []value) value {
		return symv{newVar(args[0].(string), 0), types.Bool}
	}
	intVar := func(k types.BasicKind) externalFn {
		return func(fr *frame, args []value) value {
			w, signed := kindInfo(k)
			v := symv{newVar(args[0].(string), w), k}
			lo, hi := args[1], args[2]
			le := opBvUle
			if signed {
				le = opBvSle
			}
			c := tand(mk(le, 0, termOf(lo, w), v.t), mk(le, 0, v.t, termOf(hi, w)))
			if !ex.branch(c) {
				panic(pathEnd{endPruned, "out of declared range"})
			}
			return v
		}
	}
	externals[verifPkg+".Int"] = intVar(types.Int)
	externals[verifPkg+".Uint16"] = intVar(types.Uint16)
	externals[verifPkg+".Uint32"] = intVar(types.Uint32)
	externals[verifPkg+".Uint64"] = intVar(types.Uint64)
	externals[verifPkg+".Rune"] = intVar(types.Int32)
	externals[verifPkg+".Choose"] = func(fr *frame, args []value) value {
		n := asInt64(args[1])
		v := symv{newVar(args[0].(string), 64), types.Int}
		if !ex.branch(tult(v.t, kconst(uint64(n), 64))) {
			panic(pathEnd{endPruned, "out of declared range"})
		}
		return int(asInt64(v))
	}
	externals[verifPkg+".Concrete"] = func(fr *frame, args []value) value {
		return int(asInt64(args[0]))
	}
	externals[verifPkg+".Fail"] = func(fr *frame, args []value) value {
		panic(pathEnd{endFail, args[0].(string)})
	}
	externals[verifPkg+".Prune"] = func(fr *frame, args []value) value {
		panic(pathEnd{endPruned, "assumption"})
	}
	externals[verifPkg+".Reach"] = func(fr *frame, args []value) value {
		ex.reach = append(ex.reach, args[0].(string))
		return nil
	}
	externals[verifPkg+".Symbolic"] = func(fr *frame, args []value) value { return true }
	externals[verifPkg+".Work"] = func(fr *frame, args []value) value { return ex.work }
	externals[verifPkg+".SnapInts"] = func(fr *frame, args []value) value {
		ex.snap(args[0].(string), args[1])
		return nil
	}
	externals[verifPkg+".SnapBytes"] = externals[verifPkg+".SnapInts"]
	externals[verifPkg+".SnapBool"] = externals[verifPkg+".SnapInts"]
	externals[verifPkg+".SnapInt"] = externals[verifPkg+".SnapInts"]
	externals[verifPkg+".SnapStr"] = externals[verifPkg+".SnapInts"]
	externals[verifPkg+".HeapSize"] = func(fr *frame, args []value) value {
		seen := map[*value]bool{}
		seenSl := map[*value]int{}
		return heapSize(args[0], seen, seenSl, 0)
	}
	externals[verifPkg+".SameCell"] = func(fr *frame, args []value) value {
		// do two byte slices start at the same cell?
		a, b := args[0].([]value), args[1].([]value)
		if cap(a) == 0 || cap(b) == 0 {
			return cap(a) == 0 && cap(b) == 0
		}
		return &a[:1][0] == &b[:1][0]
	}
}

func scalarEq(a, b value) bool {
	switch x := a.(type) {
	case unsafe.Pointer:
		y, ok := b.(unsafe.Pointer)
		return ok && x == y
	case *value:
		y, ok := b.(*value)
		return ok && x == y
	}
	if isSym(a) || isSym(b) {
		k, _ := kindOfValue(a)
		w, _ := kindInfo(k)
		return ex.branch(teq(termOf(a, w), termOf(b, w)))
	}
	return a == b
}

func binopAdd(x, y value) value {
	switch a := x.(type) {
	case int32:
		return a + y.(int32)
	case int64:
		return a + y.(int64)
	case uint32:
		return a + y.(uint32)
	case uint64:
		return a + y.(uint64)
	case uintptr:
		return a + y.(uintptr)
	case int:
		return a + y.(int)
	case uint:
		return a + y.(uint)
	}
	panic(fmt.Sprintf("binopAdd %T", x))
}

// snap records a labelled result, evaluated under the path's model at the
// time of the call (the model is final for all constraints seen so far; the
// recorded text is re-evaluated at path end from the stored value).
func (e *Explorer) snap(label string, v value) {
	if sl, ok := v.([]value); ok && sl != nil {
		v = append([]value{}, sl...)
	}
	e.snapVals = append(e.snapVals, snapRec{label, v})
}

type snapRec struct {
	label string
	v     value
}

// renderSnap prints v with symbolic scalars evaluated under model m, in the
// same format the native verif package uses.
func renderSnap(v value, m []uint64) string {
	switch x := v.(type) {
	case nil:
		return "nil"
	case symv:
		w, signed := kindInfo(x.k)
		val := x.t.eval(m)
		if w == 0 {
			return fmt.Sprint(val != 0)
		}
		if signed {
			return fmt.Sprint(sext64(val, w))
		}
		return fmt.Sprint(val)
	case bool, int:
		return fmt.Sprint(x)
	case string:
		return strconv.Quote(x)
	case symstr:
		b := make([]byte, len(x))
		for i, c := range x {
			if sc, ok := c.(symv); ok {
				b[i] = byte(sc.t.eval(m))
			} else {
				b[i] = c.(byte)
			}
		}
		return strconv.Quote(string(b))
	case []value:
		if x == nil {
			return "nil"
		}
		parts := make([]string, len(x))
		for i, c := range x {
			parts[i] = renderSnap(c, m)
		}
		return "[" + strings.Join(parts, " ") + "]"
	case iface:
		return renderSnap(x.v, m)
	}
	k, ok := kindOfValue(v)
	if ok {
		w, signed := kindInfo(k)
		val := termOf(v, w).c
		if signed {
			return fmt.Sprint(sext64(val, w))
		}
		return fmt.Sprint(val)
	}
	return toString(v)
}

func bitsFn(name string, x value) value {
	sx, ok := x.(symv)
	k, _ := kindOfValue(x)
	w, _ := kindInfo(k)
	if !ok {
		v := termOf(x, w).c
		return int(bitsConc(name, v, w))
	}
	// build an ite chain over the bit positions
	t := sx.t
	base := strings.TrimRight(name, "0123456789")
	bit := func(i int) *term {
		return teq(mk(opBvAnd, w, t, kconst(1<<uint(i), w)), kconst(1<<uint(i), w))
	}
	var r *term
	switch base {
	case "TrailingZeros":
		r = kconst(uint64(w), 64)
		for i := w - 1; i >= 0; i-- {
			r = tite(bit(i), kconst(uint64(i), 64), r)
		}
	case "LeadingZeros", "Len":
		// Len = index of highest set bit + 1
		r = kconst(0, 64)
		for i := 0; i < w; i++ {
			r = tite(bit(i), kconst(uint64(i+1), 64), r)
		}
		if base == "LeadingZeros" {
			r = mk(opBvSub, 64, kconst(uint64(w), 64), r)
		}
	case "OnesCount":
		r = kconst(0, 64)
		for i := 0; i < w; i++ {
			r = mk(opBvAdd, 64, r, tite(bit(i), kconst(1, 64), kconst(0, 64)))
		}
	}
	return wrapTerm(r, types.Int)
}

func bitsConc(name string, v uint64, w int) int {
	base := strings.TrimRight(name, "0123456789")
	switch base {
	case "TrailingZeros":
		for i := 0; i < w; i++ {
			if v&(1<<uint(i)) != 0 {
				return i
			}
		}
		return w
	case "Len", "LeadingZeros":
		l := 0
		for i := 0; i < w; i++ {
			if v&(1<<uint(i)) != 0 {
				l = i + 1
			}
		}
		if base == "Len" {
			return l
		}
		return w - l
	case "OnesCount":
		c := 0
		for i := 0; i < w; i++ {
			if v&(1<<uint(i)) != 0 {
				c++
			}
		}
		return c
	}
	panic("bitsConc " + name)
}

var _ = sort.Ints

// heapSize counts the cells reachable from v (slice capacities included), a
// deterministic stand-in for "heap held by this object graph".
func heapSize(v value, seen map[*value]bool, seenSl map[*value]int, depth int) int {
	if depth > 200 {
		return 0
	}
	switch x := v.(type) {
	case *value:
		if x == nil || seen[x] {
			return 0
		}
		seen[x] = true
		return 1 + heapSize(*x, seen, seenSl, depth+1)
	case []value:
		c := cap(x)
		if c == 0 {
			return 0
		}
		full := x[:c]
		key := &full[0]
		if old, ok := seenSl[key]; ok && old >= c {
			return 0
		}
		seenSl[key] = c
		n := c
		for i := range full {
			switch full[i].(type) {
			case *value, []value, structure, array, iface, map[value]value, *hashmap, *closure:
				n += heapSize(full[i], seen, seenSl, depth+1)
			}
		}
		return n
	case structure:
		n := 0
		for _, f := range x {
			n += heapSize(f, seen, seenSl, depth+1)
		}
		return n
	case array:
		n := 0
		for _, f := range x {
			switch f.(type) {
			case *value, []value, structure, array, iface, map[value]value, *hashmap, *closure:
				n += heapSize(f, seen, seenSl, depth+1)
			}
		}
		return n
	case iface:
		return heapSize(x.v, seen, seenSl, depth+1)
	case map[value]value:
		n := len(x)
		for _, e := range x {
			n += heapSize(e, seen, seenSl, depth+1)
		}
		return n
	case *hashmap:
		if x == nil {
			return 0
		}
		n := x.len()
		for _, e := range x.entries() {
			for ; e != nil; e = e.next {
				n += heapSize(e.value, seen, seenSl, depth+1)
			}
		}
		return n
	case *closure:
		if x == nil {
			return 0
		}
		n := 0
		for _, e := range x.Env {
			n += heapSize(e, seen, seenSl, depth+1)
		}
		return n
	}
	return 0
}

func unwrapErr(fr *frame, err iface) (iface, bool) {
	ms := fr.i.prog.MethodSets.MethodSet(err.t)
	sel := ms.Lookup(nil, "Unwrap")
	if sel == nil {
		return iface{}, false
	}
	fn := fr.i.prog.MethodValue(sel)
	if fn == nil {
		return iface{}, false
	}
	r := call(fr.i, fr, 0, fn, []value{err.v})
	ri, ok := r.(iface)
	if !ok {
		return iface{}, false
	}
	return ri, true
}
