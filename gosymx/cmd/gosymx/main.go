// gosymx: symbolic executor for the Go SSA of /repo (see /verif/DESIGN.md §2).
//
//	gosymx worker  [flags]   read work items (JSON lines) on stdin, write results (JSON lines) on stdout
package main

import (
	"bufio"
	"encoding/json"
	"flag"
	"fmt"
	"go/types"
	"os"
	"path/filepath"
	"runtime/pprof"
	"sort"
	"strings"
	"time"

	"golang.org/x/tools/go/packages"
	"golang.org/x/tools/go/ssa"
	"golang.org/x/tools/go/ssa/ssautil"

	"gosymx/interp"
)

type itemResult struct {
	ID        string            `json:"id"`
	Item      map[string]any    `json:"item"`
	Error     string            `json:"error,omitempty"`
	Paths     int               `json:"paths"`
	Complete  bool              `json:"complete"`
	Decisions int               `json:"decisions"`
	Outcomes  map[string]int    `json:"outcomes"`
	Reach     map[string]int    `json:"reach"`
	Fails     []failRec         `json:"fails,omitempty"`
	Incon     []failRec         `json:"inconclusive,omitempty"`
	Sample    []pathRec         `json:"sample,omitempty"`
	Closure   string            `json:"closure"`
	Stats     map[string]any    `json:"stats"`
	MaxWork   int64             `json:"max_work"`
	MaxWorkM  map[string]uint64 `json:"max_work_model,omitempty"`
	MinWork   int64             `json:"min_work"`
	Funcs     []string          `json:"funcs_sym,omitempty"`
	Vars      []string          `json:"vars"`
	WallS     float64           `json:"wall_s"`
	SetupS    float64           `json:"setup_s"`
}

type failRec struct {
	Kind   string            `json:"kind"`
	Msg    string            `json:"msg"`
	Model  map[string]uint64 `json:"model"`
	PC     string            `json:"pc,omitempty"`
	Snaps  map[string]string `json:"snaps,omitempty"`
	Known  string            `json:"known,omitempty"` // "", "known", "new"
	NewMod map[string]uint64 `json:"new_model,omitempty"`
}

type pathRec struct {
	Kind  string            `json:"k"`
	Model map[string]uint64 `json:"m"`
	Snaps map[string]string `json:"s,omitempty"`
	Reach []string          `json:"r,omitempty"`
}

func main() {
	if len(os.Args) < 2 {
		fmt.Fprintln(os.Stderr, "usage: gosymx worker [flags]")
		os.Exit(2)
	}
	switch os.Args[1] {
	case "worker":
		worker(os.Args[2:])
	default:
		fmt.Fprintln(os.Stderr, "unknown command", os.Args[1])
		os.Exit(2)
	}
}

func loadProgram(dir string, overlayFile string, pkgPattern []string) (*ssa.Program, []*ssa.Package, error) {
	// the go list child must be the same toolchain this binary was built with
	os.Setenv("PATH", "/opt/veriftools/go1.26.8/bin:"+os.Getenv("PATH"))
	os.Setenv("GOTOOLCHAIN", "local")
	os.Setenv("GOFLAGS", "-mod=mod")
	os.Setenv("GOPROXY", "off")
	cfg := &packages.Config{Mode: packages.LoadAllSyntax, Dir: dir, Env: os.Environ()}
	if overlayFile != "" {
		data, err := os.ReadFile(overlayFile)
		if err != nil {
			return nil, nil, err
		}
		var ov map[string]string
		if err := json.Unmarshal(data, &ov); err != nil {
			return nil, nil, err
		}
		cfg.Overlay = map[string][]byte{}
		for virt, real := range ov {
			b, err := os.ReadFile(real)
			if err != nil {
				return nil, nil, err
			}
			cfg.Overlay[virt] = b
		}
	}
	pkgs, err := packages.Load(cfg, pkgPattern...)
	if err != nil {
		return nil, nil, err
	}
	var errs []string
	packages.Visit(pkgs, nil, func(p *packages.Package) {
		for _, e := range p.Errors {
			errs = append(errs, e.Error())
		}
	})
	if len(errs) > 0 {
		return nil, nil, fmt.Errorf("package errors:\n%s", strings.Join(errs, "\n"))
	}
	prog, spkgs := ssautil.AllPackages(pkgs, ssa.InstantiateGenerics)
	prog.Build()
	return prog, spkgs, nil
}

func worker(args []string) {
	fs := flag.NewFlagSet("worker", flag.ExitOnError)
	dir := fs.String("dir", "/verif/harness", "harness module directory")
	pkg := fs.String("pkg", "./hz", "harness package")
	overlay := fs.String("overlay", "", "JSON file {virtual path: real path} of overlay files")
	solver := fs.String("solver", "z3", "z3 | z3-new | cvc5")
	timeout := fs.Int("qtimeout", 10000, "per-query timeout (ms)")
	cpuprof := fs.String("cpuprofile", "", "write CPU profile")
	covout := fs.String("covout", "", "directory: write block coverage of github.com/coregx/* functions as cov-<pid>.json at exit")
	fs.Parse(args)
	if *cpuprof != "" {
		f, _ := os.Create(*cpuprof)
		pprof.StartCPUProfile(f)
		defer pprof.StopCPUProfile()
	}

	t0 := time.Now()
	_, spkgs, err := loadProgram(*dir, *overlay, []string{*pkg})
	if err != nil {
		fmt.Fprintln(os.Stderr, "load:", err)
		os.Exit(3)
	}
	hpkg := spkgs[0]
	sizes := types.SizesFor("gc", "amd64")
	ex := interp.NewExplorer(*solver, *timeout)
	m, err := interp.NewMachine(hpkg, sizes)
	if err != nil {
		fmt.Fprintln(os.Stderr, "init:", err)
		os.Exit(3)
	}
	fmt.Fprintf(os.Stderr, "gosymx worker ready in %.1fs\n", time.Since(t0).Seconds())
	setupFn, runFn := hpkg.Func("Setup"), hpkg.Func("Run")
	if setupFn == nil || runFn == nil {
		fmt.Fprintln(os.Stderr, "harness package lacks Setup/Run")
		os.Exit(3)
	}
	in := bufio.NewReaderSize(os.Stdin, 1<<20)
	out := bufio.NewWriter(os.Stdout)
	fmt.Fprintln(out, `{"ready":true}`)
	out.Flush()
	for {
		line, err := in.ReadString('\n')
		if len(strings.TrimSpace(line)) > 0 {
			var it map[string]any
			if jerr := json.Unmarshal([]byte(line), &it); jerr != nil {
				fmt.Fprintln(os.Stderr, "bad item:", jerr)
			} else {
				res := runItem(m, ex, hpkg, setupFn, runFn, it)
				b, _ := json.Marshal(res)
				out.Write(b)
				out.WriteByte('\n')
				out.Flush()
			}
		}
		if err != nil {
			break
		}
	}
	ex.Close()
	if *covout != "" {
		cov := m.Coverage()
		if b, err := json.Marshal(cov); err == nil {
			os.WriteFile(filepath.Join(*covout, fmt.Sprintf("cov-%d.json", os.Getpid())), b, 0o644)
		}
	}
}

func getInt(it map[string]any, k string, def int) int {
	if v, ok := it[k]; ok {
		if f, ok := v.(float64); ok {
			return int(f)
		}
	}
	return def
}

func runItem(m *interp.Machine, ex *interp.Explorer, hpkg *ssa.Package, setupFn, runFn *ssa.Function, it map[string]any) (res itemResult) {
	t0 := time.Now()
	res.Item = it
	res.ID, _ = it["id"].(string)
	res.Outcomes = map[string]int{}
	res.Reach = map[string]int{}
	res.Stats = map[string]any{}
	res.MinWork = -1
	maxPaths := getInt(it, "max_paths", 200000)
	sampleCap := getInt(it, "sample", 400)
	ex.StepLimit = int64(getInt(it, "step_limit", 5000000))
	ex.MaxSplit = getInt(it, "max_split", 64)
	ex.MaxPreempt = getInt(it, "max_preempt", 1)
	ex.ResetItem()
	ex.Stats = interp.SolverStats{}
	ex.FuncsSym = map[string]bool{}
	ex.TrackFuncs(getInt(it, "track_funcs", 0) != 0)

	fields := map[string]any{}
	for k, v := range it {
		if len(k) > 0 && k[0] >= 'A' && k[0] <= 'Z' {
			fields[k] = v
		}
	}
	itemPtr, err := m.NewStruct(hpkg, "Item", fields)
	if err != nil {
		res.Error = err.Error()
		return
	}
	ctx, err := m.CallProtected(setupFn, itemPtr)
	res.SetupS = time.Since(t0).Seconds()
	if err != nil {
		res.Error = "setup: " + err.Error()
		return
	}
	var known []string
	if kl, ok := it["known"].([]any); ok {
		for _, k := range kl {
			if s, ok := k.(string); ok {
				known = append(known, s)
			}
		}
	}
	var all []pathRec
	var pcs []string
	wantClosure := getInt(it, "closure", 1) != 0
	paths, complete := ex.Explore(func() { m.Call(runFn, ctx, itemPtr) }, maxPaths, func(r *interp.PathResult) bool {
		res.Outcomes[r.Kind]++
		res.Decisions += r.Decisions
		for _, t := range r.Reach {
			res.Reach[t]++
		}
		if r.Kind != "pruned" {
			if r.Work > res.MaxWork {
				res.MaxWork = r.Work
				res.MaxWorkM = r.Model
			}
			if res.MinWork < 0 || r.Work < res.MinWork {
				res.MinWork = r.Work
			}
		}
		switch r.Kind {
		case "ok", "pruned":
		case "fail", "panic", "step-bound":
			if len(res.Fails) < 2000 {
				res.Fails = append(res.Fails, failRec{Kind: r.Kind, Msg: r.Msg, Model: r.Model, PC: r.PCString(), Snaps: r.Snaps})
			}
		default:
			if len(res.Incon) < 50 {
				res.Incon = append(res.Incon, failRec{Kind: r.Kind, Msg: r.Msg, Model: r.Model})
			}
		}
		if r.Kind == "ok" || r.Kind == "fail" || r.Kind == "panic" {
			all = append(all, pathRec{Kind: r.Kind, Model: r.Model, Snaps: r.Snaps, Reach: r.Reach})
		}
		if wantClosure && len(pcs) <= 5000 {
			pcs = append(pcs, r.PCString())
		}
		return true
	})
	res.Paths = paths
	res.Complete = complete
	res.Vars = interp.VarNames()

	// closure: the explored path conditions cover the whole input space
	res.Closure = "skipped"
	if complete && wantClosure && len(pcs) <= 5000 && len(pcs) > 0 {
		neg := "(not (or " + strings.Join(pcs, " ") + " false))"
		sat, _ := ex.CheckSat(neg, false)
		switch sat {
		case 0:
			res.Closure = "unsat"
		case 1:
			res.Closure = "sat"
		default:
			res.Closure = "unknown"
		}
	}
	// known-finding regions: is there a failing input outside the recorded regions?
	for i := range res.Fails {
		f := &res.Fails[i]
		if len(known) == 0 {
			f.Known = "new"
			continue
		}
		q := "(and " + f.PC + " (not (or " + strings.Join(known, " ") + " false)))"
		sat, model := ex.CheckSat(q, true)
		switch sat {
		case 0:
			f.Known = "known"
		case 1:
			f.Known = "new"
			f.NewMod = model
		default:
			f.Known = "new"
		}
	}
	// sample of paths for native replay
	if len(all) <= sampleCap {
		res.Sample = all
	} else {
		step := float64(len(all)) / float64(sampleCap)
		for k := 0; k < sampleCap; k++ {
			res.Sample = append(res.Sample, all[int(float64(k)*step)])
		}
	}
	st := ex.Stats
	res.Stats["queries"] = st.Queries
	res.Stats["cache_hits"] = st.CacheHits
	res.Stats["model_hits"] = st.ModelHits
	res.Stats["sat"] = st.Sat
	res.Stats["unsat"] = st.Unsat
	res.Stats["unknown"] = st.Unknown
	res.Stats["errors"] = st.Errors
	res.Stats["solver_s"] = st.SolverTime.Seconds()
	res.Stats["decided"] = ex.Decided
	res.Funcs = interp.SortedKeys(ex.FuncsSym)
	sort.Strings(res.Funcs)
	res.WallS = time.Since(t0).Seconds()
	return
}
