"""C17 — extracted literals are necessary for every match."""
from props import corpus
from props.common import mk, bounds

ASSUMPTIONS = ["m ranges over EVERY member of L(p) of length <= L (membership assumed through regexp on ^(?:p)$), not over generated samples; patterns: corpus P1 plus literal-heavy extras"]

EXTRA = [r"a(b*c)d", r"(x*y)c", r"a(\d+b)c", r"(a?b)c", r"a([bc]+d)e", r"(ab[cd])e", r"abc", r"ab|cd", r"a(b|c)d", r"(foo|foobar)x", r"x*yx*", r"a+b", r"[ab]c", r"[a-c]x|yz", r"(?i)ab", r"ab.*cd", r"a?bc", r"(a|b)(c|d)e", r"\d+ab", r"ab\d+", r"a{2,3}b", r"(ab)+c", r"ab|", r"(?:a|b|c|d|e|f|g|h|i|j|k)x",
         # case folding with non-ASCII members of ASCII orbits (k/K/KELVIN SIGN, s/S/LONG S) and non-ASCII letters
         r"(?i)k", r"(?i)s", r"(?i)sk", r"x(?i:s)", r"(?i)é"]
LIMITS = ["", "maxlits=2", "maxlen=1", "maxclass=1", "cross=2", "maxlits=1,maxlen=2"]


def items(tier):
    out = []
    ents = corpus.entries(tier)
    pats = [p for p, _, _ in ents]
    deep = {p for p, _, t in ents if corpus.deep(t)} | set(EXTRA)
    pats += [p for p in EXTRA if p not in pats]
    Ls = [2, 3] if tier == "quick" else [1, 2, 3, 4]
    for p in pats:
        a = "utf8" if corpus.uses_anychar(p) else ""
        for L in Ls:
            if L == 4 and p not in deep:
                continue
            for api in ["prefix", "suffix", "inner", "innerR"]:
                out.append(mk("C17", p, api, L, a))
    for p in EXTRA:
        a = "utf8" if corpus.uses_anychar(p) else ""
        for lim in (LIMITS[1:4] if tier == "quick" else LIMITS[1:]):
            for api in ["prefix", "suffix", "inner"]:
                out.append(mk("C17", p, api, 3, a, extra=lim))
    return out


def evidence_extra(tier):
    b = bounds(tier, 3, 4, "member length 2..3 (quick) / 1..4 (thorough)")
    b["bounds"]["extractor_limits"] = LIMITS
    return b
