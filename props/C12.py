"""C12 — optimisation settings never change answers."""
from props import corpus
from props.common import mk, alpha_for, bounds

ASSUMPTIONS = ["configuration grid G12 (boundary values of every Validate() range and each boolean), not the full configuration space; CPU vector extensions: flags are false in the symbolic run (pure-Go paths); inputs: every byte string within the bound"]

G12 = [
    "dfa=0", "pf=0", "ascii=0", "dfa=0,pf=0,ascii=0",
    "states=1", "det=10", "minlit=1", "minlit=64", "maxlits=1", "maxlits=1000", "rec=10",
    "states=1,det=10,maxlits=1,minlit=3",
]
EXTRA12 = [(r"(foo|bar).+x", [("foo", ""), ("a bar-", "")])]
QG = ["dfa=0", "pf=0", "ascii=0", "states=1,det=10,maxlits=1,minlit=3", "minlit=1"]


def items(tier):
    out = []
    L = 3 if tier == "quick" else 4
    ents = corpus.entries(tier)
    if tier == "quick":
        ents = ents[::2]
    for p, strat, tags in ents:
        a = alpha_for(p)
        if corpus.windows_only(tags, tier) or "wq" in tags:
            continue
        if tier == "quick":
            for g in QG:
                out.append(mk("C12", p, "FindIndex", L, a, extra=g, strategy=strat))
            out.append(mk("C12", p, "Match", L, a, extra=QG[3], strategy=strat))
            continue
        # thorough: every configuration of the grid at L = 3 (FindIndex), the quick grid for Match / FindAll / submatch,
        # and L = 4 under the two most different configurations for the deep entries
        for g in (G12 if corpus.deep(tags) else QG):
            out.append(mk("C12", p, "FindIndex", 3, a, extra=g, strategy=strat))
        for g in QG:
            out.append(mk("C12", p, "Match", 3, a, extra=g, strategy=strat))
            if corpus.deep(tags):
                out.append(mk("C12", p, "FindAllIndex", 3, a, extra=g, strategy=strat))
                if "cap" in tags:
                    out.append(mk("C12", p, "FindSubmatchIndex", 3, a, extra=g, strategy=strat))
        if corpus.deep(tags):
            for g in ["dfa=0,pf=0,ascii=0", "states=1,det=10,maxlits=1,minlit=3"]:
                out.append(mk("C12", p, "FindIndex", 4, a, extra=g, strategy=strat))
    # literal alternation followed by a non-literal tail, medium NFA: the literal thresholds (MinLiteralLen, MaxLiterals)
    # decide between the literal, DFA and adaptive strategies; windows put the literal in front of the symbolic tail
    for p, wins in EXTRA12:
        for g in (QG + ["minlit=64", "minlit=4"] if tier == "quick" else G12 + ["minlit=4"]):
            if "maxlits=1" in g:
                continue  # truncation of the literal set is a recorded finding of its own (known class)
            for pre, post in wins:
                a12 = "hex:2d78200a61" if tier == "quick" else alpha_for(p)  # quick: - x space \n a
                out.append(mk("C12", p, "FindIndex", 3, a12, extra=g, pre=pre, post=post))
                if tier != "quick":
                    out.append(mk("C12", p, "Match", 3, a12, extra=g, pre=pre, post=post))
    # literal alternations next to assertions: Match and FindIndex under every configuration, with windows
    for p, strat, tags in corpus.entries("thorough", tag="lit"):
        a = alpha_for(p)
        for g in (QG if tier == "quick" else G12):
            for pre, post in corpus.windows(p):
                out.append(mk("C12", p, "Match", 3, a, extra=g, strategy=strat, pre=pre, post=post))
                if tier != "quick":
                    out.append(mk("C12", p, "FindIndex", 3, a, extra=g, strategy=strat, pre=pre, post=post))
    return out


def evidence_extra(tier):
    b = bounds(tier, 3, 4)
    b["bounds"]["configs"] = QG if tier == "quick" else G12
    return b
