"""C15 — compiled byte automata recognise exactly the UTF-8 of the intended runes."""
from props.common import mk, bounds

ASSUMPTIONS = ["class corpus K15; every byte string of length 1..L (valid and ill-formed) is covered, which includes the UTF-8 of every rune of that encoded length; ASCII-only mode is run under the ascii alphabet restriction"]

K15 = [
    r".", r"(?s).", r"[^a]", r"[^\n]", r"\w", r"\W", r"\d", r"\D", r"\s", r"\S", r"[a-z]", r"[^a-z]", r"é", r"(?i)é", r"(?i)k", r"(?i)s", r"[é-ü]", r"[\x{80}-\x{7ff}]",
    r"[\x{800}-\x{ffff}]", r"[\x{10000}-\x{10ffff}]", r"[\x{7f}-\x{80}]", r"[\x{7ff}-\x{800}]", r"[\x{ffff}-\x{10000}]", r"[\x{d7ff}-\x{e000}]", r"\p{Greek}", r"\P{Greek}", r"\pL", r"\p{Lu}",
    r"[^\x{0}-\x{10fffe}]", r"\x{fffd}", r"[α-ω]", r"(?i)[k-l]", r"日", r"[日本]", r"\p{Han}", r"(?i)ǅ", r"[[:alpha:]]", r"[^[:alpha:]]", r"\pN", r"..", r"\W{2}",
]
QUICK = {r".", r"[^a]", r"\W", r"é", r"(?i)k", r"[\x{80}-\x{7ff}]", r"[\x{7ff}-\x{800}]", r"\p{Greek}", r"(?i)é"}
SLOW3 = {r"[\x{800}-\x{ffff}]", r"[\x{10000}-\x{10ffff}]", r"\pL", r"\P{Greek}", r"[^\x{0}-\x{10fffe}]"}
ASCII_OK = {r".", r"(?s).", r"[^a]", r"\w", r"\W", r"\d", r"\D", r"[a-z]", r"[^a-z]", r"(?i)k", r".."}


def items(tier):
    out = []
    for p in K15:
        if tier == "quick" and p not in QUICK:
            continue
        Ls = [1, 2, 3] if tier == "quick" else [1, 2, 3, 4]
        for L in Ls:
            if L == 4 and p in (r"..", r"\W{2}"):
                continue
            if L >= 3 and p in SLOW3 and tier == "quick":
                continue
            out.append(mk("C15", p, "nfa", L, "", mode=0))
            if L <= (2 if tier == "quick" else 3):
                out.append(mk("C15", p, "nfa", L, "", mode=1))
        out.append(mk("C15", p, "e2e", 3 if tier == "quick" else 4, ""))
        if p in ASCII_OK:
            out.append(mk("C15", p, "nfa", 2, "ascii", mode=2))
    return out


def evidence_extra(tier):
    return bounds(tier, 3, 4, "modes: 0 default, 1 UseRuneStates (sparse dot), 2 ASCIIOnly (ascii alphabet); e2e = coregex.Match on ^(?:c)$")
