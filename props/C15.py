"""C15 — compiled byte automata recognise exactly the UTF-8 of the intended runes."""
from props.common import mk, bounds

ASSUMPTIONS = ["class corpus K15; every byte string of length 1..L (valid and ill-formed) is covered, which includes the UTF-8 of every rune of that encoded length; ASCII-only mode is run under the ascii alphabet restriction"]

K15 = [
    r".", r"(?s).", r"[^a]", r"[^\n]", r"\w", r"\W", r"\d", r"\D", r"\s", r"\S", r"[a-z]", r"[^a-z]", r"é", r"(?i)é", r"(?i)k", r"(?i)s", r"[é-ü]", r"[\x{80}-\x{7ff}]",
    r"[\x{800}-\x{ffff}]", r"[\x{10000}-\x{10ffff}]", r"[\x{7f}-\x{80}]", r"[\x{7ff}-\x{800}]", r"[\x{ffff}-\x{10000}]", r"[\x{d7ff}-\x{e000}]", r"\p{Greek}", r"\P{Greek}", r"\pL", r"\p{Lu}",
    r"[^\x{0}-\x{10fffe}]", r"\x{fffd}", r"[α-ω]", r"(?i)[k-l]", r"日", r"[日本]", r"\p{Han}", r"(?i)ǅ", r"[[:alpha:]]", r"[^[:alpha:]]", r"\pN", r"..", r"\W{2}",
    # classes with non-ASCII members AND a range that starts or ends at the last ASCII code point (DEL): ASCII-only mode boundary
    r"[^ -~]", r"\p{Cc}", r"[\x{7f}\x{100}]", r"[^\x00-\x7e]", r"[\x{7e}-\x{100}]",
]
QUICK = {r".", r"[^a]", r"\W", r"é", r"(?i)k", r"[\x{80}-\x{7ff}]", r"[\x{7ff}-\x{800}]", r"\p{Greek}", r"(?i)é", r"[^ -~]", r"\p{Cc}", r"[\x{7f}-\x{80}]"}
SLOW3 = {r"[\x{800}-\x{ffff}]", r"[\x{10000}-\x{10ffff}]", r"\pL", r"\P{Greek}", r"[^\x{0}-\x{10fffe}]"}
ASCII_OK = {r".", r"(?s).", r"[^a]", r"\w", r"\W", r"\d", r"\D", r"[a-z]", r"[^a-z]", r"(?i)k", r"..", r"[^ -~]", r"\p{Cc}", r"[\x{7f}\x{100}]", r"[^\x00-\x7e]", r"[\x{7e}-\x{100}]", r"[\x{7f}-\x{80}]", r"\s", r"\S", r"[^\n]"}


# 3-byte classes whose bounds have different lead bytes: explored over the boundary bytes of the
# encoding (lead bytes E0 E1 EC ED EE EF, continuation-range edges 80 9F A0 BF and the bounds' own bytes)
MULTI3 = [
    (r"[\x{900}-\x{1100}]", "e0e1e2a3a4a5808184859fa0bf"),
    (r"[\x{4e00}-\x{d000}]", "e3e4e5ecedeeb7b8b9808180819fa0bf"),
    (r"[\x{ac00}-\x{d7a3}]", "e9eaebecedeeafb0b19d9e9f80a2a3a4bf"),
    (r"[^\x{e01}-\x{e5b}]", "e0e1b7b8b9bab080819a9b9cbf61"),
]

# 4-byte ranges of large classes (> 256 members): boundary bytes of the bounds' encodings, L = 4
#   U+10400 = F0 90 90 80, U+10500 = F0 90 94 80, U+10600 = F0 90 98 80; U+1F300 = F0 9F 8C 80, U+1F64F = F0 9F 99 8F
MULTI4 = [
    (r"[\x{10400}-\x{10500}]", "f0f1908f91939495988081bf"),
    (r"[\x{1F300}-\x{1F64F}]", "f0f19f9ea08b8c8d98999a808e8f90bf"),
    (r"[\x{3FF00}-\x{40100}]", "f0f1f2bf808183848fbc"),
]

def items(tier):
    out = []
    for p, hx in (MULTI4 if tier != "quick" else MULTI4[:2]):
        out.append(mk("C15", p, "nfa", 4, "hex:" + hx, mode=0))
        if tier != "quick":
            out.append(mk("C15", p, "e2e", 4, "hex:" + hx))
    for p, hx in (MULTI3 if tier != "quick" else MULTI3[:3]):
        out.append(mk("C15", p, "nfa", 3, "hex:" + hx, mode=0))
        out.append(mk("C15", p, "e2e", 3, "hex:" + hx))
        if tier != "quick":
            out.append(mk("C15", p, "nfa", 3, "hex:" + hx, mode=1))
    for p in K15:
        if tier == "quick" and p not in QUICK:
            continue
        Ls = [1, 2, 3] if tier == "quick" else [1, 2, 3, 4]
        for L in Ls:
            if L == 4 and p in (r"..", r"\W{2}"):
                continue
            if L >= 3 and p in SLOW3 and tier == "quick":
                continue
            out.append(mk("C15", p, "nfa", L, "", mode=0))
            if L <= (2 if tier == "quick" else 3):
                out.append(mk("C15", p, "nfa", L, "", mode=1))
        out.append(mk("C15", p, "e2e", 3 if tier == "quick" else 4, ""))
        if p in ASCII_OK:
            # (a one-character class matches strings of length 1 only: L = 2 alone never reached a match)
            for La in [1, 2]:
                out.append(mk("C15", p, "nfa", La, "ascii", mode=2))
    return out


def evidence_extra(tier):
    return bounds(tier, 3, 4, "modes: 0 default, 1 UseRuneStates (sparse dot), 2 ASCIIOnly (ascii alphabet); e2e = coregex.Match on ^(?:c)$")
