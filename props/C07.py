"""C07 — total and memory-safe: no panic, hang, stray write; results well-formed."""
from props import corpus
from props.common import mk, bounds

ASSUMPTIONS = [
    "search part: every byte string of length <= L for each corpus pattern; a Go run-time panic, an exceeded step budget (5e6 SSA instructions) or a violated well-formedness predicate on any path is a violation; 'haystack unchanged' is checked on the executor's cells",
    "pattern part: Compile of patterns with one symbolic byte (metacharacter alphabet) returns a value or an error without panic, and searches on 5 fixed haystacks with the compiled value are well-formed",
    "reads outside the haystack cannot happen unnoticed in the executor (every index is bounds-checked on every path); the assembly kernels are outside this check",
]

M = "a*+?()[]|\\.^$-{}1,:<>P"
MUST07 = {r"\bx", r"x\b", r"(?m)^ab", r"(?m)ab$", r"\Bx", r"\b[ab]+\b"}
HP = [r"a+b", r"(a|b)*c", r"[a-c]{1,2}", r"(?i)a\b"]


def items(tier):
    out = []
    L = 3 if tier == "quick" else 4
    ents = corpus.entries(tier)
    if tier == "quick":
        # every second entry, plus the look-around patterns of the NFA strategy with the pooled backtracker (call sequences
        # that leave an offset in the pooled state: enumeration first, boolean call last)
        ents = ents[::2] + [e for i, e in enumerate(ents) if i % 2 == 1 and e[0] in MUST07]
    for p, strat, tags in ents:
        if tier == "quick" and p in (r".*[ab]",):
            out.append(mk("C07", p, "search", 2, "", strategy=strat))
            continue
        out.append(mk("C07", p, "search", L, "", strategy=strat))
        if tier != "quick":
            out.append(mk("C07", p, "search", 2, "", strategy=strat))
    # resumed searches on a haystack longer than 100 bytes (the "estimated start = end - 100" paths of the adaptive strategy)
    long_pre = "-" * 95 + "abx12 ---- cd"
    out.append(mk("C07", r"[a-z]{2,5}x[0-9]{2,5}", "search", 3, "hex:" + b"x34-a".hex(), pre=long_pre, post=" ---- efx56 --", timeout_s=600))
    out.append(mk("C07", r"[a-z]+[0-9]+", "search", 3, "hex:" + b"a1-".hex(), pre="-" * 99 + "ab12 ", post=" cd34"))
    for p in (HP[:2] if tier == "quick" else HP):
        for i in range(len(p)):
            d = mk("C07", p[:i] + "\x00" + p[i + 1:], "compile", 0, "set:" + M, timeout_s=600, extra=p[i])
            d["id"] = "C07|%s|compile|hole%d" % (p, i)
            out.append(d)
    return out


def evidence_extra(tier):
    return bounds(tier, 3, 4, "pattern holes over " + M)
