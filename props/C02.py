"""C02 — first-match location is stdlib's leftmost-first match."""
from props import corpus

ASSUMPTIONS = ["patterns: corpus P1 only; haystacks: all byte strings of the listed lengths (utf8(L): restricted to well-formed UTF-8 where stated)"]


def items(tier):
    out = []
    maxL = 3 if tier == "quick" else 4
    for idx, (p, strat, tags) in enumerate(corpus.entries(tier)):
        alpha = "utf8" if corpus.uses_anychar(p) else ""
        for L in corpus.lengths(tags, tier, maxL):
            out.append({"id": "C02|%s|FindIndex|L%d|%s" % (p, L, alpha or "full"), "Harness": "C02", "Pattern": p, "API": "FindIndex", "L": L, "Alpha": alpha,
                        "strategy": strat, "reach": ["match", "nomatch"] if L == maxL else None})
        for pre, post in corpus.windows(p):
            out.append({"id": "C02|%s|FindIndex|L%d|%s|w%s+%s" % (p, maxL, alpha or "full", pre.encode().hex(), post.encode().hex()), "Harness": "C02", "Pattern": p, "API": "FindIndex", "L": maxL, "Alpha": alpha, "Pre": pre, "Post": post, "strategy": strat})
        # FindReaderIndex over ALL byte strings (offsets must count an ill-formed byte as one byte, as regexp does)
        if tier != "quick" or idx % 5 == 0:
            out.append({"id": "C02|%s|FindReaderIndex|L2|full" % p, "Harness": "C02", "Pattern": p, "API": "FindReaderIndex", "L": 2, "Alpha": "", "strategy": strat})
        for api in ["Find", "FindStringIndex", "FindString"]:
            out.append({"id": "C02|%s|%s|L2|%s" % (p, api, alpha or "full"), "Harness": "C02", "Pattern": p, "API": api, "L": 2, "Alpha": alpha, "strategy": strat})
    return out


def evidence_extra(tier):
    return {"bounds": {"corpus": "props/corpus.py P1 (%s tier)" % tier, "haystack": "full(L)/utf8(L), L = 0..%d" % (3 if tier == "quick" else 4)}}
