"""C01 — Match* decide exactly what stdlib regexp decides."""
from props import corpus

ASSUMPTIONS = ["patterns: corpus P1 only; haystacks: all byte strings of the listed lengths (utf8(L): restricted to well-formed UTF-8 where stated)"]


def items(tier):
    out = []
    maxL = 3 if tier == "quick" else 4
    for idx, (p, strat, tags) in enumerate(corpus.entries(tier)):
        alpha = "utf8" if corpus.uses_anychar(p) else ""
        apis = ["Match"]
        for L in corpus.lengths(tags, tier, maxL):
            for api in apis:
                out.append({"id": "C01|%s|%s|L%d|%s" % (p, api, L, alpha or "full"), "Harness": "C01", "Pattern": p, "API": api, "L": L, "Alpha": alpha,
                            "strategy": strat, "reach": ["match", "nomatch"] if L == maxL else None})
        out.append({"id": "C01|%s|MatchString|L2|%s" % (p, alpha or "full"), "Harness": "C01", "Pattern": p, "API": "MatchString", "L": 2, "Alpha": alpha, "strategy": strat})
        # reader and package-level entry points: every 5th entry in the quick tier, all in the thorough tier
        if tier != "quick" or idx % 5 == 0:
            for api in ["MatchReader", "PkgMatch", "PkgMatchString"]:
                # (the package-level functions compile inside the run: larger step budget)
                out.append({"id": "C01|%s|%s|L2|%s" % (p, api, alpha or "full"), "Harness": "C01", "Pattern": p, "API": api, "L": 2, "Alpha": alpha, "strategy": strat, "step_limit": 60000000})
        for pre, post in corpus.windows(p):
            out.append({"id": "C01|%s|Match|L%d|%s|w%s+%s" % (p, maxL, alpha or "full", pre.encode().hex(), post.encode().hex()), "Harness": "C01", "Pattern": p, "API": "Match", "L": maxL, "Alpha": alpha, "Pre": pre, "Post": post, "strategy": strat})
    return out


def evidence_extra(tier):
    return {"bounds": {"corpus": "props/corpus.py P1 (%s tier)" % tier, "haystack": "full(L)/utf8(L), L = 0..%d" % (3 if tier == "quick" else 4)}}
