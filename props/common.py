"""Shared item builders."""
from props import corpus


def alpha_for(p, force=None):
    if force is not None:
        return force
    return "utf8" if corpus.uses_anychar(p) else ""


def mk(harness, p, api, L, alpha="", mode=0, n=0, extra="", pre="", post="", strategy="", reach=None, **kw):
    iid = "%s|%s|%s|L%d|%s" % (harness, p, api, L, alpha or "full")
    if mode:
        iid += "|m%d" % mode
    if n:
        iid += "|n%d" % n
    if extra:
        iid += "|x" + extra
    if pre or post:
        iid += "|w%s+%s" % (pre.encode().hex() if len(pre) <= 6 else "%dx%s" % (len(pre), pre[:1].encode().hex()), post.encode().hex() if len(post) <= 6 else "%dx%s" % (len(post), post[:1].encode().hex()))
    d = {"id": iid, "Harness": harness, "Pattern": p, "API": api, "L": L, "Alpha": alpha, "Mode": mode, "N": n, "Extra": extra,
         "Pre": pre, "Post": post, "strategy": strategy}
    if reach:
        d["reach"] = reach
    d.update(kw)
    return d


def bounds(tier, maxL_quick, maxL_thorough, note=""):
    return {"bounds": {"corpus": "props/corpus.py (%s tier)" % tier,
                       "haystack": "full(L) / utf8(L) for patterns with any-char constructs, L = 0..%d" % (maxL_quick if tier == "quick" else maxL_thorough),
                       "note": note}}
