"""C04 — successive-match enumeration equals stdlib's FindAll sequence."""
from props import corpus
from props.common import mk, alpha_for, bounds

ASSUMPTIONS = ["patterns: corpus P1; haystacks: all byte strings of the listed lengths (utf8(L) where stated); n symbolic in [-1,3] (N=99) or concrete"]

APIS2 = ["FindAllStringIndex", "FindAll", "FindAllString", "FindAllSubmatchIndex", "Count", "AllIndex", "AppendAllIndex"]
APIS_T = ["FindAllStringSubmatchIndex", "FindAllSubmatch", "FindAllStringSubmatch", "CountString", "AllStringIndex", "All", "AllString", "AppendAllStringIndex"]


def items(tier):
    out = []
    maxL = 3 if tier == "quick" else 4
    ents = corpus.entries(tier)
    for idx, (p, strat, tags) in enumerate(ents):
        a = alpha_for(p)
        for L in corpus.lengths(tags, tier, maxL):
            out.append(mk("C04", p, "FindAllIndex", L, a, n=99, strategy=strat))
        # the other enumeration APIs at L=2: all of them for every third pattern (rotating) in quick, for all in thorough
        apis = APIS2 + (APIS_T if tier != "quick" and corpus.deep(tags) else [])
        if tier == "quick" and "e" not in tags:
            apis = [APIS2[(idx + k) % len(APIS2)] for k in range(2)]
        for api in apis:
            n = -1 if api.startswith("All") else 99
            out.append(mk("C04", p, api, 2, a, n=n, strategy=strat, extra="1" if api.startswith("Append") else ""))
        if "e" in tags:
            # patterns that can match the empty string: every enumeration API also at L=3
            # (an empty match next to a non-empty one and a multi-byte code point need 3 bytes)
            for api in APIS2 + ["CountString", "AllStringIndex"]:
                n = -1 if api.startswith("All") else 99
                out.append(mk("C04", p, api, 3, a, n=n, strategy=strat, extra="1" if api.startswith("Append") else ""))
        for pre, post in corpus.windows(p):
            out.append(mk("C04", p, "FindAllIndex", maxL, a, n=-1, strategy=strat, pre=pre, post=post))
            if tier != "quick":
                out.append(mk("C04", p, "Count", maxL, a, n=-1, strategy=strat, pre=pre, post=post))
        out.append(mk("C04", p, "AllIndexBreak", 3, a, n=1, strategy=strat))
        if tier != "quick" or idx % 4 == 0:
            out.append(mk("C04", p, "AppendAllIndex", 2, a, n=-1, strategy=strat, extra="0"))
    return out


def evidence_extra(tier):
    return bounds(tier, 3, 4, "n symbolic in [-1,3]; AppendAllIndex dst with 0 or 1 sentinel pairs")
