"""C11 — all views of one Regex tell the same story (no oracle)."""
import zlib
from props import corpus
from props.common import mk, alpha_for, bounds

ASSUMPTIONS = ["patterns: corpus P1; haystacks: all byte strings of the listed lengths (no alphabet restriction: no oracle is involved)"]


ALLQ = {r"a*", r"\bx", r"[a-z]+[0-9]+", r"foo|bar", r"(a)(b)?", r".*\.tx", r"$", r"\d:\d"}


def items(tier):
    out = []
    maxL = 3 if tier == "quick" else 4
    for p, strat, tags in corpus.entries(tier):
        for L in ([] if corpus.windows_only(tags, tier) else [maxL] if tier == "quick" else [x for x in corpus.lengths(tags, tier, maxL) if x < 4 or zlib.crc32(p.encode()) % 3 == 0]):
            out.append(mk("C11", p, "basic", L, "", strategy=strat))
        for pre, post in corpus.windows(p):
            # windows of patterns with any-char constructs: well-formed UTF-8 only (the ill-formed-UTF-8 defect class is
            # already represented by the unwindowed item of the same pattern; here it would only multiply its regions)
            out.append(mk("C11", p, "basic", maxL, alpha_for(p), strategy=strat, pre=pre, post=post))
        if tier != "quick" or p in ALLQ:
            out.append(mk("C11", p, "all", 2 if tier == "quick" else 3, "", strategy=strat))
    return out


def evidence_extra(tier):
    return bounds(tier, 3, 4, "relations checked: Match<=>FindIndex, Find/FindString = h[loc], string/byte variants, FindAll(n) prefix, Count, AppendAllIndex, AllIndex, FindAllSubmatchIndex group 0")
