"""Versioned pattern corpora (the 'programs' bound of every claim).

Each P1 entry: (pattern, expected strategy, tags). Tags:
  q   = part of the quick tier
  cap = has capture groups worth checking (C03)
Windows (concrete pads around the symbolic bytes) are listed in WINDOWS.
"""
import re

P1 = [
    # --- UseNFA
    (r"\bx", "UseNFA", "q"),
    (r"\Bx", "UseNFA", ""),
    (r"x\b", "UseNFA", "q"),
    (r"(a|\bx)", "UseNFA", "cap"),
    (r"(?m)^ab", "UseNFA", "q"),
    (r"(?m)ab$", "UseNFA", "q"),
    (r"a*", "UseNFA", "q e"),
    (r"a??", "UseNFA", " e"),
    (r"\b", "UseNFA", " e"),
    (r"a[\x80-\xff]b", "UseNFA", ""),
    (r"(..)(..)", "UseNFA", "cap"),
    # --- UseDFA
    (r"a|ab", "UseDFA", "q"),
    (r"(a|ab)(c|bcd)", "UseDFA", "q cap"),
    (r"a.*?b", "UseDFA", "q"),
    (r"a.b", "UseDFA", ""),
    (r"a+?", "UseDFA", ""),
    (r"a{2,4}?", "UseDFA", ""),
    (r"ab??", "UseDFA", ""),
    (r"x*yx*", "UseDFA", "q"),
    (r"a\S", "UseDFA", ""),
    (r"a\d+", "UseDFA", "q"),
    (r"(a)(b)?", "UseDFA", "q cap"),
    (r"(a+)|(b+)", "UseDFA", "cap"),
    (r"a(b*)", "UseDFA", "cap"),
    (r"ö+", "UseDFA", "q"),
    (r"[0-9]+|[a-z]+", "UseDFA", ""),
    (r"\d?ab", "UseDFA", "q"),
    (r"ab", "UseDFA", "q"),
    (r"<.*>", "UseDFA", ""),
    (r"<(.*?)>", "UseDFA", "cap"),
    # --- UseBoth
    (r"(.+)-(\d+)", "UseBoth", "cap"),
    (r".*[ab]", "UseBoth", "q"),
    (r".{2}", "UseBoth", ""),
    (r".*\bab\b", "UseBoth", ""),
    # --- BoundedBacktracker
    (r"(a|b)+", "UseBoundedBacktracker", "q cap"),
    (r"(\w+)\s+(\w+)", "UseBoundedBacktracker", "cap"),
    (r"(\d)+", "UseBoundedBacktracker", "q cap"),
    (r"[0-9]{1,3}", "UseBoundedBacktracker", ""),
    (r"[^a-z]+", "UseBoundedBacktracker", "q"),
    (r"\d\D", "UseBoundedBacktracker", ""),
    (r"(?i)a|b|c", "UseBoundedBacktracker", ""),
    (r"(ö|a)+", "UseBoundedBacktracker", "cap"),
    (r"[äöü]+", "UseBoundedBacktracker", ""),
    (r"^ab", "UseBoundedBacktracker", "q"),
    (r"^ab$", "UseBoundedBacktracker", "q"),
    (r"^(.+)-(\d+)$", "UseBoundedBacktracker", "cap"),
    (r"^\b", "UseBoundedBacktracker", ""),
    (r"[a-z]*", "UseBoundedBacktracker", "q e"),
    (r"\d?", "UseBoundedBacktracker", " e"),
    (r"^.*$", "UseBoundedBacktracker", " e"),
    # --- CharClassSearcher
    (r"[a-z]+", "UseCharClassSearcher", "q"),
    (r"\w+", "UseCharClassSearcher", "q"),
    (r"\s+", "UseCharClassSearcher", ""),
    (r"[a\-\]z]+", "UseCharClassSearcher", ""),
    # --- CompositeSearcher
    (r"[a-z]+[0-9]+", "UseCompositeSearcher", "q"),
    (r"[1-9][0-9]*", "UseCompositeSearcher", "q"),
    (r"[a-z]?[0-9]", "UseCompositeSearcher", ""),
    (r"\w+[0-9]+", "UseCompositeSearcher", "q"),
    # --- DigitPrefilter
    (r"(\d+)-(\d+)", "UseDigitPrefilter", "q cap"),
    (r"\d+\.\d+", "UseDigitPrefilter", "q"),
    (r"1[0-9]{2}", "UseDigitPrefilter", ""),
    (r"[1-9][0-9]*|0", "UseDigitPrefilter", ""),
    (r"1*2*3", "UseDigitPrefilter", ""),
    # --- Teddy
    (r"foo|bar", "UseTeddy", "q"),
    (r"abc|bcd", "UseTeddy", "q"),
    (r"(?i)abc", "UseTeddy", "q"),
    (r"a(b|c)d", "UseTeddy", "cap"),
    (r"(?im)^ABC", "UseTeddy", ""),
    # --- AnchoredLiteral
    (r"^a.*c$", "UseAnchoredLiteral", "q"),
    (r"(?s:^a.*c$)", "UseAnchoredLiteral", ""),
    (r"^/.*[\w-]+\.ph$", "UseAnchoredLiteral", ""),
    (r"^ab.*cd$", "UseAnchoredLiteral", "q"),
    # --- BranchDispatch
    (r"^(\d+|UU)", "UseBranchDispatch", "q cap"),
    (r"^(ab|cd|ef)", "UseBranchDispatch", "q cap"),
    # --- ReverseAnchored
    (r"ab$", "UseReverseAnchored", "q"),
    (r"[a-z]+$", "UseReverseAnchored", "q"),
    (r"\.(tx|lo|md)$", "UseReverseAnchored", "cap"),
    (r"da(.)a$", "UseReverseAnchored", "cap"),
    (r"ab\z", "UseReverseAnchored", ""),
    (r"\d+$", "UseReverseAnchored", ""),
    # --- ReverseSuffix
    (r".*\.tx", "UseReverseSuffix", "q"),
    (r"(.*)x", "UseReverseSuffix", "cap"),
    (r"[a-z]+\.tx", "UseReverseSuffix", "q"),
    (r"\d+\.\d+\.35", "UseReverseSuffix", ""),
    (r"\w+@\w+\.or", "UseReverseSuffix", ""),
    (r".+ab", "UseReverseSuffix", ""),
    # --- ReverseSuffixSet
    (r".*\.(tx|lo|md)", "UseReverseSuffixSet", "q"),
    # --- ReverseInner
    (r".*co.*", "UseReverseInner", "q"),
    (r"\w+@\w+\.\w+", "UseReverseInner", "q"),
    (r"[a-z]+co[a-z]+", "UseReverseInner", "q"),
    (r".+ER.+", "UseReverseInner", ""),
    # --- MultilineReverseSuffix
    (r"(?m)^/.*\.js", "UseMultilineReverseSuffix", "q"),
    (r"(?m)^.*\.ph", "UseMultilineReverseSuffix", ""),
    # --- structural dimensions found relevant by seeded changes and agent reports
    (r"[a-c]+aa", "UseReverseSuffix", "q"),            # self-overlapping suffix literal
    (r"[a-c]+aa[a-c]+", "UseReverseInner", "q"),       # self-overlapping inner literal
    (r".*(aa|ab)", "UseBoth", ""),
    (r"(?m)^.*aa", "UseMultilineReverseSuffix", ""),
    (r".*aa.*", "UseReverseInner", ""),
    (r"\d+\.\.", "UseReverseSuffix", ""),
    (r"^é$", "UseBoundedBacktracker", "q"),             # anchored non-ASCII literal
    (r"\B", "UseNFA", "q e"),
    (r"$", "UseReverseAnchored", "q e"),
    (r"(?m)^", "UseNFA", "q e"),
    (r"()", "UseNFA", "q cap e"),
    (r"(x*)y", "UseDFA", "q cap"),
    (r"(a*)+", "UseNFA", "cap e"),
    (r"[a-z]+?[0-9]+", "UseCompositeSearcher", "q"),    # lazy inside a composite
    # --- capture shapes: a group completed by a FAILED earlier attempt, then a later seed wins
    (r"(a)x|b", "UseDFA", "q cap"),
    (r"(?:(a)xy|b)", "UseDFA", "q cap"),
    (r"(a+?)(b*)", "UseDFA", "q cap"),
    (r"(\w+)@(?:(\w*)\.)+c", "UseReverseSuffix", "cap"),
    (r"(\d+)-(\d+)|([a-z]+)", "UseBoth", "cap"),
    (r"(a)|(b)|(c)", "UseDFA", "q cap"),
    (r"((a)|b)+", "UseDFA", "q cap"),
    (r"(a*)(a|b)", "UseDFA", "cap"),
    # --- fast-path corners reported on the pinned tree
    (r"[ax]+[bz]+[ay]+[cw]+", "UseCompositeSearcher", ""),
    (r"[a-z]{0}[0-9]+", "UseCompositeSearcher", "q"),
    (r".*?\.tx", "UseReverseSuffix", "q"),
    (r"[0-5]+\.\d+", "UseDigitPrefilter", "q"),
    (r"^(\d+|UU*|he)", "UseBoundedBacktracker", "q cap"),   # was UseBranchDispatch before fix 948b602
    (r"^(\d+|UUID|hex32)", "UseBranchDispatch", "q cap"),
    (r"^(foo|bar|baz)", "UseBranchDispatch", "cap"),
    # --- suffix-set / suffix searchers on several matches and lines (fix 590cbe6, 53bd80b)
    (r"[a-z]+\.(tx|lo|md)", "UseReverseSuffixSet", "q"),
    (r"[a-z.]+\.(tx|lo|md)", "UseReverseSuffixSet", "q"),
    (r"(?s).*ab", "UseReverseSuffix", "q"),
    (r".+co.+", "UseReverseInner", "q"),
    # --- strategies / paths no other entry reached (block-coverage report, tools/coverage.py)
    ("|".join(c1 + c2 for c1 in "abcdefghj" for c2 in "klmnopqr"), "UseAhoCorasick", "q"),   # 72 complete literals
    (r"abc|abd|xyz\d", "UseTeddy", "q"),                 # Teddy with an incomplete literal: candidate + verification
    (r"foo[a-z]{40}x", "UseDFA", "q"),                   # prefilter + NFA of > 100 states: anchored DFA verification per candidate
    (r"\b(?:foo|bar)[0-9]{4}[a-z]{4}", "UseDFA", "q wq"),    # look-behind at the SECOND prefilter candidate of one DFA search
    # groups inside loops on strategies whose submatch call is two-phase (span by the strategy, groups by
    # PikeVM.SearchWithCapturesInSpan with copy-on-write slots; fix 34ebcaa)
    (r"(a)+c$", "UseReverseAnchored", "q cap"),
    (r"[a-z]+(\d)*x\.tx", "UseReverseSuffix", "q cap"),
    (r"\b[ab]+\b", "UseNFA", "q"),                       # NFA strategy + pooled backtracker, no prefilter (seeded change C07-2)
    (r"[0-5]+\.\d+", "UseDigitPrefilter", "q"),           # leading digit SUB-class: a match can start inside a digit run (fix 2049841)
    (r".*co[0-9]+", "UseReverseInner", "q"),             # greedy prefix over a later inner literal (fix cba9df1)
    (r".+a", "UseReverseSuffix", "q cap"),               # guard of the limited reverse search (fix bb986bd)
    (r"[a-z]+a", "UseReverseSuffix", "q"),
    (r"\d{2}:\d{2}", "UseDigitPrefilter", "q"),
    (r"[a-z]+(?:\b-){1,2}en", "UseNFA", ""),
    (r"\d:\d", "UseDigitPrefilter", "q"),               # bounded leading digit class (no digit-run skipping allowed)
    # --- literal alternations next to assertions (prefilter may only be a candidate generator here)
    (r"\b(foo|bar)", "UseNFA", "q lit"),
    (r"(foo|bar)\b", "UseNFA", "lit"),
    (r"\Bfoo|\Bbar", "UseNFA", "lit"),
    # --- longest mode: shorter alternative is a proper prefix of a longer one that needs two more bytes
    (r"(aa|aaab)", "UseDFA", "q cap"),
    (r"an|anan|banana", "UseDFA", ""),
]

# Patterns whose language involves "any character" constructs: the pinned tree
# does not consume ill-formed UTF-8 bytes there (known finding), so their main
# bound is utf8(L); full(L) items exist separately.
_ANY = re.compile(r"(?<!\\)\.|\[\^|\\D|\\W|\\S|\\P|\\B|\\b")


def uses_anychar(p):
    return bool(_ANY.search(p))


def entries(tier, tag=None):
    out = []
    for p, strat, tags in P1:
        tl = tags.split()
        if tier == "quick" and "q" not in tl:
            continue
        if tag and tag not in tl:
            continue
        out.append((p, strat, tl))
    return out


def windows_only(tags, tier):
    """Entries tagged wq are large patterns whose interesting behaviour needs a concrete window: in the quick tier only
    their window items are generated (the plain L = 0..3 items cost minutes and reach no match)."""
    return tier == "quick" and "wq" in tags


def deep(tags):
    """Entries explored at the deepest length of the thorough tier (L = 4 over all bytes): the quick-tier entries. The other
    entries take part in the thorough tier at the quick bounds (L <= 3); window-only entries (wq) never get plain items."""
    return "q" in tags and "wq" not in tags


def lengths(tags, tier, maxL):
    """Plain (unwindowed) haystack lengths of one corpus entry."""
    if "wq" in tags:
        return []
    if tier == "quick":
        return list(range(0, maxL + 1))
    return list(range(0, (maxL if deep(tags) else maxL - 1) + 1))


def posix_ok(p):
    """Patterns the POSIX ERE syntax accepts (no Perl classes, lazy quantifiers, flags, \\b)."""
    return not re.search(r"\\[dDwWsSbBzA]|\?\?|\*\?|\+\?|\}\?|\(\?", p)


# Windows: concrete pads around the symbolic bytes, so that short symbolic parts reach
# matches of longer patterns and offsets inside runs. pattern -> [(pre, post)]
WINDOWS = {
    r"\d:\d": [("1", ""), ("11", "")],
    r"\d{2}:\d{2}": [("11", "30"), ("1", "0")],
    r"^ab.*cd$": [("ab", ""), ("", "cd"), ("ab", "d")],
    r"(?m)^/.*\.js": [("/a", ""), ("x\n/", "s")],
    r"[a-z]+co[a-z]+": [("ac", ""), ("a", "a")],
    r"\w+@\w+\.\w+": [("a@", ""), ("a", "b.c")],
    r"[a-z]+\.tx": [("a", "x"), ("", "tx")],
    r".*\.(tx|lo|md)": [("a.", ""), ("", "d"), ("a.tx\n", ".lo"), ("a.tx", ".lo")],
    r"^ab$": [("a", ""), ("", "b")],
    r"(\d+)-(\d+)": [("1", ""), ("", "2")],
    r"\d+\.\d+": [("1", ""), ("", "5")],
    r"foo|bar": [("f", ""), ("xb", "")],
    r"abc|bcd": [("a", ""), ("", "d")],
    r"(?i)abc": [("A", ""), ("", "C")],
    r"[a-c]+aa[a-c]+": [("a", ""), ("", "a")],
    r"^(ab|cd|ef)": [("", "x")],
    r"^a.*c$": [("a", "")],
    r"(aa|aaab)": [("a", ""), ("xa", "")],
    r"\b(foo|bar)": [("x", ""), ("", "x"), (" ", "")],
    r"(foo|bar)\b": [("", "x"), ("x", "")],
    r"\Bfoo|\Bbar": [("x", ""), ("", "")],
    r".*co.*": [("c", ""), ("co\n", ""), ("", "\nco")],
    r".*\.tx": [("a.tx\n", ".tx"), ("", "\nb.tx"), ("a.tx", "\nb.tx")],
    r"[a-z]+\.(tx|lo|md)": [("a.tx ", ".lo"), ("a", ".tx"), ("a.tx b", "")],
    r"[a-z.]+\.(tx|lo|md)": [("a.tx", ".lo"), ("a.tx.lo ", ".md")],
    r"(?s).*ab": [("\n", "b"), ("x\ny a", "")],
    r".+co.+": [("co", ""), ("", "co"), ("c", "a")],
    r".*co[0-9]+": [("xco1 ", ""), ("co1 ", "2"), ("", "o1")],
    r"[0-5]+\.\d+": [("6", ""), ("96 7", "")],
    r".*?\.tx": [("a.tx", ""), ("a", "x.tx")],
    r"[a-z]+(\d)*x\.tx": [("a", ".tx")],
    r"\b(?:foo|bar)[0-9]{4}[a-z]{4}": [(" xbar1234abcd ", "1234abcd"), ("xfoo1234abcd-", "1234abcd"), ("foo1234abcd bar1234abcd ", "")],
    r"abc|abd|xyz\d": [("xyz", ""), ("ab", ""), ("xy", "1")],
    r"foo[a-z]{40}x": [("foo" + "a" * 39, "x"), ("foo" + "a" * 37, "ax")],
    "|".join(c1 + c2 for c1 in "abcdefghj" for c2 in "klmnopqr"): [("a", ""), ("xj", ""), ("", "k")],
    r"^(\d+|UUID|hex32)": [("UUI", ""), ("hex", ""), ("1", "")],
    r"^(foo|bar|baz)": [("ba", ""), ("f", "")],
}


def windows(p):
    return WINDOWS.get(p, [])
