"""C05 — every single search runs in time linear in the haystack (bounded form)."""
import json
from props.common import mk

ASSUMPTIONS = [
    "work = executed basic blocks inside github.com/coregx/* during the harness run of one call, counted by the symbolic executor on every path; W(p,api,L) = maximum over ALL haystacks of length L over the item's alphabet (exact within the bound, the arg-max model is the adversarial input)",
    "claims: (i) slope of W over [L,2L] <= 4 x slope over [0,L] + (400 + 2 x reference PikeVM work at 2L)/L for ALL haystacks over 3 class representatives (first-use costs dominate at these lengths: only super-polynomial growth is asserted there), slope over [L,2L] <= 1.5 x slope over [0,L] + 400/L for one-symbol runs; for long runs (N = 128..1024 copies of one symbol + one symbolic byte) slope over [2N,4N] <= 1.25 x slope over [N,2N] + 400/2N; (ii) W(L) <= K*(states+1)*(L+1), K = 4 x the largest such ratio observed for the reference PikeVM on the same corpus and bound; nothing is claimed about asymptotics beyond the bound nor about compile time",
]

# pattern -> alphabet of class representatives
F05 = [
    (r"[a-z]+[0-9]+", "a1-"), (r"\w+@\w+", "a@-"), (r".*\.tx", ".tx"), (r"(a|b)+c", "abc"), (r"a.*?b", "ab\n"),
    (r"foo|bar", "fob"), (r"\bx", "x -"), (r"ab$", "ab\n"), (r".*co.*", "co\n"), (r"(\d+)-(\d+)", "1-a"),
    (r"([a-z])+[0-9]", "a1-"), (r"[a-z]+[a-z]+[a-z]+[0-9]", "a1-"), (r"(a*)*b", "ab-"), (r"(a|aa)+$", "ab-"), (r"(x+x+)+y", "xy-"),
    (r"[a-z]+\.tx", "a.t"), (r"\w+\s+\w+", "a -"), (r"(?m)^/.*\.js", "/.\n"),
    (r"[A-Z][a-z]+(aaa|bbb)", "aAb"), (r"[A-Z][a-z.]+\.com", "A.c"), (r"[a-z]+(ing|ed)", "ing"),
]
QUICK = F05[:12] + F05[18:19]
# "runs": one-symbol alphabets make the haystack a single path per length, so much longer inputs are affordable; they are
# the adversaries of the anti-quadratic guards (self-overlapping literal candidates: aaa in a^n)
LONG_NS = {"quick": [128, 256, 512], "thorough": [256, 512, 1024]}
# patterns whose short runs already show the (known) super-linear growth: the long runs would only exhaust the step limit
NO_LONG = {r"([a-z])+[0-9]", r"[a-z]+[a-z]+[a-z]+[0-9]", r"(a*)*b", r"(a|aa)+$", r"(x+x+)+y"}
RUN_LS = {"quick": [0, 16, 32], "thorough": [0, 32, 64]}


def items(tier):
    out = []
    fam = QUICK if tier == "quick" else F05
    Ls = [0, 3, 6] if tier == "quick" else [0, 4, 8]
    for p, alpha in fam:
        for api in (["FindIndex", "pike"] if tier == "quick" else ["Match", "FindIndex", "FindSubmatchIndex", "pike"]):
            for L in Ls:
                out.append(mk("C05", p, api, L, "hex:" + alpha.encode().hex(), closure=0, sample=40))
    for p, alpha in fam:
        for api in (["FindIndex"] if tier == "quick" else ["Match", "FindIndex", "FindSubmatchIndex"]):
            for ch in alpha:
                # patterns whose 32-byte run already shows the known super-linear growth keep the quick run lengths: at 64 bytes
                # the cubic one exhausts the executor's step budget
                for L in (RUN_LS["quick"] if p in NO_LONG else RUN_LS[tier]):
                    out.append(mk("C05", p, api, L, "hex:" + ch.encode().hex(), closure=0, sample=2))
    # long runs: N concrete copies of one symbol followed by ONE symbolic byte over the pattern's alphabet. The quadratic term of
    # a guard failure has a small coefficient (a cached DFA step per byte) next to the per-candidate overhead, so it only
    # dominates the block count from a few hundred bytes on. Items that exhaust the step limit are reported inconclusive.
    for p, alpha in fam:
        if p in NO_LONG:
            continue
        for ch in alpha:
            for n in LONG_NS[tier]:
                out.append(mk("C05", p, "FindIndex", 1, "hex:" + alpha.encode().hex(), n=n, extra=ch, closure=0, sample=2, step_limit=60000000))
    return out


def post_check(results, tier):
    """Cross-item assertions on the per-item worst-case work."""
    W = {}
    for r in results:
        if r.get("error") or not r.get("complete"):
            continue
        it = r["item"]
        run = len(it["Alpha"]) == 6  # hex: + one byte
        if it.get("N"):
            W[(it["Pattern"] + "|long:" + it["Extra"].encode().hex(), it["API"], it["N"])] = (r.get("max_work", 0), r.get("max_work_model"), r["id"], it)
            continue
        W[(it["Pattern"] + ("|run:" + it["Alpha"][4:] if run else ""), it["API"], it["L"])] = (r.get("max_work", 0), r.get("max_work_model"), r["id"], it)
    vios = []
    info = {"growth": [], "K_reference": None}
    for grp in ("", "|run:", "|long:"):
        if grp:
            Wg = {k: v for k, v in W.items() if grp in k[0]}
        else:
            Wg = {k: v for k, v in W.items() if "|run:" not in k[0] and "|long:" not in k[0]}
        # short exhaustive lengths: first-use costs (lazy DFA states, one fall-back to the linear simulator) dominate, so only
        # growth beyond cubic-in-3-points (slope ratio > 4, e.g. doubling per byte) is asserted there; polynomial growth is
        # the business of the runs, where those costs are amortised (quadratic = ratio 3 over 0/L/2L, 2 over N/2N/4N)
        v, i = _growth(Wg, {"": 4.0, "|run:": 1.5, "|long:": 1.25}[grp], W if not grp else None)
        vios += v
        info["growth"] += i.get("growth", [])
        if not grp:
            info["K_reference_blocks_per_byte"] = i.get("K_reference_blocks_per_byte")
    return vios, info


def _growth(W, ratio, ref=None):
    """slope over [L1,L2] against slope over [L0,L1]: linear work keeps it, c*n^2 doubles it (triples it for 0,L,2L)."""
    Ls = sorted({k[2] for k in W})
    if len(Ls) < 3:
        return [], {}
    L0, L1, L2 = Ls[0], Ls[1], Ls[2]
    vios = []
    info = {"growth": [], "K_reference": None}
    # reference constant from the PikeVM
    kref = 0.0
    for (p, api, L), (w, _, _, _) in W.items():
        if api == "pike" and L == L2:
            kref = max(kref, w / float(L + 1))
    info["K_reference_blocks_per_byte"] = kref
    for (p, api, L), (w2, m2, rid, it) in sorted(W.items()):
        if L != L2 or api == "pike":
            continue
        if (p, api, L1) not in W or (p, api, L0) not in W:
            continue
        w1, w0 = W[(p, api, L1)][0], W[(p, api, L0)][0]
        g = {"pattern": p, "api": api, "W": {str(L0): w0, str(L1): w1, str(L2): w2}, "argmax_model": m2}
        info["growth"].append(g)
        # slack: a constant, plus (short exhaustive lengths only) twice the reference simulation of the same pattern at
        # L2 — a switch to the linear fall-back engine between two lengths is a step, not growth
        slack = 400.0
        if ref is not None and (p, "pike", L2) in ref:
            slack += 2.0 * ref[(p, "pike", L2)][0]
        if (w2 - w1) / float(L2 - L1) > ratio * (w1 - w0) / float(L1 - L0) + slack / (L2 - L1):
            vios.append({"id": rid, "item": {k: it[k] for k in it if k[0].isupper()}, "model": m2 or {}, "msg": "C05 worst-case work grows faster than linearly: W(%d)=%d W(%d)=%d W(%d)=%d" % (L0, w0, L1, w1, L2, w2), "snaps": g["W"], "source": "work-growth", "pc": "true"})
        elif kref > 0 and w2 > 4 * kref * (L2 + 1) * 8:
            vios.append({"id": rid, "item": {k: it[k] for k in it if k[0].isupper()}, "model": m2 or {}, "msg": "C05 worst-case work exceeds 32x the reference simulation: W(%d)=%d, reference per byte %.0f" % (L2, w2, kref), "snaps": g["W"], "source": "work-bound", "pc": "true"})
    return vios, info


def evidence_extra(tier):
    return {"bounds": {"family": [p for p, _ in (QUICK if tier == "quick" else F05)], "lengths": [0, 3, 6] if tier == "quick" else [0, 4, 8], "alphabet": "3 class representatives per pattern",
                       "runs": "one-symbol haystacks of length %s per alphabet symbol" % RUN_LS[tier], "long_runs": "%s copies of one symbol followed by one symbolic byte (FindIndex; patterns %s excluded: their short runs already show the known super-linear growth)" % (LONG_NS[tier], sorted(NO_LONG))}}
