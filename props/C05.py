"""C05 — every single search runs in time linear in the haystack (bounded form)."""
import json
from props.common import mk

ASSUMPTIONS = [
    "work = executed basic blocks inside github.com/coregx/* during the harness run of one call, counted by the symbolic executor on every path; W(p,api,L) = maximum over ALL haystacks of length L over the item's alphabet (exact within the bound, the arg-max model is the adversarial input)",
    "claims: (i) W(2L)-W(0) <= 2.5*(W(L)-W(0)) + 400 for the largest L in the bound; (ii) W(L) <= K*(states+1)*(L+1), K = 4 x the largest such ratio observed for the reference PikeVM on the same corpus and bound; nothing is claimed about asymptotics beyond the bound nor about compile time",
]

# pattern -> alphabet of class representatives
F05 = [
    (r"[a-z]+[0-9]+", "a1-"), (r"\w+@\w+", "a@-"), (r".*\.tx", ".tx"), (r"(a|b)+c", "abc"), (r"a.*?b", "ab\n"),
    (r"foo|bar", "fob"), (r"\bx", "x -"), (r"ab$", "ab\n"), (r".*co.*", "co\n"), (r"(\d+)-(\d+)", "1-a"),
    (r"([a-z])+[0-9]", "a1-"), (r"[a-z]+[a-z]+[a-z]+[0-9]", "a1-"), (r"(a*)*b", "ab-"), (r"(a|aa)+$", "ab-"), (r"(x+x+)+y", "xy-"),
    (r"[a-z]+\.tx", "a.t"), (r"\w+\s+\w+", "a -"), (r"(?m)^/.*\.js", "/.\n"),
]
QUICK = F05[:12]


def items(tier):
    out = []
    fam = QUICK if tier == "quick" else F05
    Ls = [0, 3, 6] if tier == "quick" else [0, 4, 8]
    for p, alpha in fam:
        for api in (["FindIndex", "pike"] if tier == "quick" else ["Match", "FindIndex", "FindSubmatchIndex", "pike"]):
            for L in Ls:
                out.append(mk("C05", p, api, L, "hex:" + alpha.encode().hex(), closure=0, sample=40))
    return out


def post_check(results, tier):
    """Cross-item assertions on the per-item worst-case work."""
    W = {}
    for r in results:
        if r.get("error") or not r.get("complete"):
            continue
        it = r["item"]
        W[(it["Pattern"], it["API"], it["L"])] = (r.get("max_work", 0), r.get("max_work_model"), r["id"], it)
    Ls = sorted({k[2] for k in W})
    if len(Ls) < 3:
        return [], {}
    L0, L1, L2 = Ls[0], Ls[1], Ls[2]
    vios = []
    info = {"growth": [], "K_reference": None}
    # reference constant from the PikeVM
    kref = 0.0
    for (p, api, L), (w, _, _, _) in W.items():
        if api == "pike" and L == L2:
            kref = max(kref, w / float(L + 1))
    info["K_reference_blocks_per_byte"] = kref
    for (p, api, L), (w2, m2, rid, it) in sorted(W.items()):
        if L != L2 or api == "pike":
            continue
        if (p, api, L1) not in W or (p, api, L0) not in W:
            continue
        w1, w0 = W[(p, api, L1)][0], W[(p, api, L0)][0]
        g = {"pattern": p, "api": api, "W": {str(L0): w0, str(L1): w1, str(L2): w2}, "argmax_model": m2}
        info["growth"].append(g)
        if (w2 - w0) > 2.5 * (w1 - w0) + 400:
            vios.append({"id": rid, "item": {k: it[k] for k in it if k[0].isupper()}, "model": m2 or {}, "msg": "C05 worst-case work grows faster than linearly: W(%d)=%d W(%d)=%d W(%d)=%d" % (L0, w0, L1, w1, L2, w2), "snaps": g["W"], "source": "work-growth", "pc": "true"})
        elif kref > 0 and w2 > 4 * kref * (L2 + 1) * 8:
            vios.append({"id": rid, "item": {k: it[k] for k in it if k[0].isupper()}, "model": m2 or {}, "msg": "C05 worst-case work exceeds 32x the reference simulation: W(%d)=%d, reference per byte %.0f" % (L2, w2, kref), "snaps": g["W"], "source": "work-bound", "pc": "true"})
    return vios, info


def evidence_extra(tier):
    return {"bounds": {"family": [p for p, _ in (QUICK if tier == "quick" else F05)], "lengths": [0, 3, 6] if tier == "quick" else [0, 4, 8], "alphabet": "3 class representatives per pattern"}}
