"""C06 — a compiled Regex is safe for concurrent use (two calls, bounded preemption)."""
from props.common import mk

RACE_REPLAY = True
ASSUMPTIONS = [
    "two concurrent calls on one shared Regex (more goroutines are outside the claim); interleavings explored at every synchronisation operation (sync/atomic, sync.Pool) with at most 1 (quick) / 2 (thorough) preemptive context switches; Go's DRF-SC guarantee reduces other interleavings to these",
    "happens-before monitor (vector clocks) over every plain load/store/copy/append of interpreter cells; map operations are not instrumented; atomic read-modify-write on one address and Pool.Put -> Pool.Get of the same item are release/acquire edges",
    "haystacks symbolic over a 3-symbol alphabet, length <= 2; a reported race is confirmed by re-running the same two calls 400 times under the Go race detector (native build of /repo) before it is reported",
]

# API codes: 0 Match, 1 FindIndex, 2 FindSubmatchIndex, 3 FindAllIndex, 4 Count, 5 ReplaceAll
P06 = [
    (r"\b\w+\b", "a -"), (r"\b\d+", "1a "),   # UseNFA without prefilter: small bounded backtracker on the FindIndicesAt paths
    (r"a|ab", "ab-"), (r"[a-z]+[0-9]+", "a1-"), (r"\w+@\w+", "a@-"), (r".*\.tx", ".tx"), (r"(a|b)+", "ab-"), (r"\bx", "x -"), (r"foo|bar", "fob"),
    (r"ab$", "ab\n"), (r"^a.*c$", "ac\n"), (r"[a-z]+", "a1-"), (r"(\d+)-(\d+)", "1-a"), (r".*co.*", "co\n"), (r"^.*$", "ab-"), (r"a\d+", "a1-"), (r"(.+)-(\d+)", "a1-"), (r"[^a-z]+", "a1-"),
    (r"a.*?b", "ab-"), (r"(?m)^/.*\.js", "/.j"), (r".*\.(tx|lo)", ".tl"), (r"^(ab|cd)", "abc"),
]
PAIRS_Q = [(1, 1), (5, 5), (3, 0), (2, 4)]
PAIRS_T = [(a, b) for a in range(6) for b in range(a, 6)]


def items(tier):
    out = []
    pats = P06 if tier != "quick" else P06[:16]
    for p, alpha in pats:
        for (a, b) in (PAIRS_Q if tier == "quick" else PAIRS_T):
            L = 1 if tier == "quick" else 2
            d = mk("C06", p, "par", L, "hex:" + alpha.encode().hex(), mode=a, n=b, closure=0, max_preempt=1 if tier == "quick" else 2, sample=60)
            out.append(d)
    return out


def evidence_extra(tier):
    return {"bounds": {"patterns": [p for p, _ in (P06 if tier != "quick" else P06[:16])], "api_pairs": PAIRS_Q if tier == "quick" else PAIRS_T, "max_preemptions": 1 if tier == "quick" else 2, "haystack_len": 1 if tier == "quick" else 2}}
