"""C13 — results do not depend on what the Regex was used for before."""
from props import corpus
from props.common import mk, alpha_for, bounds

ASSUMPTIONS = [
    "bounded histories: k <= 1 (quick) / 2 (thorough) earlier calls, each with a nondeterministically chosen API (Match, FindIndex, FindSubmatchIndex, FindAllIndex) and a symbolic haystack over the item's alphabet, then the call under test on a second symbolic haystack; fresh value compiled in the same path",
    "inductive step for the bounded backtracker: invariant I = every cell of the visited backing array (up to cap) <= Generation; from an arbitrary state satisfying I (generation symbolic uint16, all cells symbolic) a search returns what it returns on a zero state and re-establishes I, including across generation wrap-around; covers histories of any length",
    "lazy-DFA cache pre-states are only those reached by the bounded histories (tiny capacities force clears and give-up)",
]

ALPHA = "hex:" + b"ab1.\n \xc3\xa9".hex()
HIST = [r"a|ab", r"a.*?b", r"[a-z]+[0-9]+", r"\w+@\w+", r".*\.tx", r"(a|b)+", r"\bx", r"foo|bar", r"ab$", r"^a.*c$", r"[a-z]+", r"(\d+)-(\d+)", r".*co.*", r"(?m)^/.*\.js"]
HIST2 = [r"(a*)(b*)", r"(x*)(y?)z?"]
HIST3 = [r"\b[ab]+\b", r"(?m)^[ab]+", r"[ab]+\b"]
BT = [r"(a|b)+c", r"(\w+)\s+(\w+)", r"[0-9]{1,3}", r"(a|b)*", r"^ab", r"\d\D"]
DFA = [r"a|ab", r"a.*?b", r"[a-c]+x", r"(a|b)+c", r"\bab"]


def items(tier):
    out = []
    hp = HIST if tier != "quick" else HIST[:8]
    for p in hp:
        for api_k in ([1, 3] if tier == "quick" else [0, 1, 2, 3, 4, 5]):
            out.append(mk("C13", p, "history", 2, ALPHA, mode=api_k, n=1))
            if tier != "quick" and p in HIST[:6] and api_k in (1, 2, 3):
                # two earlier calls: 16 API pairs x two symbolic haystacks; kept to one byte each and to six patterns
                out.append(mk("C13", p, "history", 1, ALPHA, mode=api_k, n=2, timeout_s=600))
    # two earlier calls of different kinds before a submatch call (state that one kind of search narrows and only another kind
    # restores): capture patterns whose plain searches run on the same pooled simulator
    for p in HIST2:
        for api_k in ([2] if tier == "quick" else [1, 2, 5]):
            out.append(mk("C13", p, "history", 1, ALPHA, mode=api_k, n=2, timeout_s=600))
    # an enumeration call (resumes at offsets > 0 on pooled state) before a boolean call
    for p in HIST3:
        for api_k in ([0] if tier == "quick" else [0, 1, 2]):
            out.append(mk("C13", p, "history", 2, "hex:" + b"ab \n1".hex(), mode=api_k, n=1))
    for p in BT:
        for L in ([0, 2] if tier == "quick" else [0, 1, 2, 3]):
            for tail in ([3] if tier == "quick" else [0, 3, 8]):
                out.append(mk("C13", p, "backtracker-state", L, "set:ab1 \n", n=tail))
    for p in DFA:
        for x in ["cap=1,clears=0", "cap=200,clears=1", "cap=600,clears=6"]:
            out.append(mk("C13", p, "dfa-cache", 2 if tier == "quick" else 3, "set:abx1 \n", n=1 if tier == "quick" else 2, extra=x))
    return out


def evidence_extra(tier):
    return {"bounds": {"history_patterns": HIST, "backtracker_patterns": BT, "dfa_patterns": DFA, "alphabet": repr(ALPHA)}}
