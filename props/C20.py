"""C20 — memory per Regex stays bounded (capacity invariants, no growth on repetition)."""
from props.common import mk, bounds

ASSUMPTIONS = [
    "the zero-allocation clause (allocs/op == 0 after warm-up) is NOT covered: it depends on the Go compiler's escape analysis and inlining, which are not part of the SSA semantics the executor runs",
    "heap(Regex) = number of cells reachable from the Regex value in the executor's heap model (slice capacities included, sync.Pool contents included); histories: the same four searches repeated three times on two symbolic haystacks",
    "lazy DFA: bounded histories of N+1 searches on one cache under tiny capacities; bound checked: MemoryUsage <= CacheCapacityBytes + one state (stride*4 + NFA states*4 + 256 bytes)",
]

PATS = [r"a|ab", r"a.*?b", r"[a-z]+[0-9]+", r"\w+@\w+", r"(a|b)+c", r"foo|bar", r".*\.tx", r"\bx"]
DFA = [r"a|ab", r"a.*?b", r"[a-c]+x", r"(a|b)+c", r"\w+@\w+"]
CAPS = ["cap=1,clears=6", "cap=300,clears=6", "cap=1000,clears=2", ""]


def items(tier):
    out = []
    for p in (PATS if tier != "quick" else PATS[:5]):
        out.append(mk("C20", p, "repeat-growth", 2 if tier == "quick" else 3, "set:ab1.@x \n"))
        out.append(mk("C20", p, "bt-visited", 3, "set:ab1.@x \n", n=2))
    # resumed search on a haystack longer than the backtracker's MaxInputSize (323 bytes for this NFA) whose tail still fits
    out.append(mk("C20", r"[a-c]{400}x", "bt-visited-at", 2, "hex:" + b"abx".hex(), n=300, pre="a" * 330))
    out.append(mk("C20", r"[a-c]{400}x", "bt-visited-at", 2, "hex:" + b"abx".hex(), n=0, pre="a" * 300))
    for p in DFA:
        for x in (CAPS if tier != "quick" else CAPS[:3]):
            out.append(mk("C20", p, "dfa-capacity", 2 if tier == "quick" else 3, "set:abx1@ \n", n=1 if tier == "quick" else 2, extra=x))
    return out


def evidence_extra(tier):
    return {"bounds": {"patterns": PATS, "dfa_patterns": DFA, "capacities": CAPS}}
