"""C14 — each matching engine agrees with the reference on everything it accepts."""
from props.common import mk, bounds

ASSUMPTIONS = [
    "engine corpus E14 below; lazy-DFA Find/SearchAt are accepted when they return either the leftmost-first or the leftmost-longest end (the API documents the latter, callers rely on the former for unambiguous patterns)",
    "start offsets at>0 use patterns without look-behind, reference = regexp on h[at:] shifted",
]

# (pattern, has_captures, lookbehind_free)
E14 = [
    (r"ab", False, True), (r"a|ab", False, True), (r"a+b", False, True), (r"a*b", False, True), (r"[a-c]+", False, True),
    (r"a.c", False, True), (r"(a)(b)?", True, True), (r"(a|ab)(c|bcd)", True, True), (r"a.*?b", False, True),
    (r"\d+x", False, True), (r"(\w+)@(\w+)", True, True), (r"x*yx*", False, True), (r"ö+", False, True),
    (r"\bab", False, False), (r"^ab", False, False), (r"ab$", False, False), (r"(?m)^a", False, False),
    (r"(a+)(b+)", True, True), (r"[^a]b", False, True),
    # groups that an abandoned earlier attempt closes and the reported match does not enter (stale scratch slots)
    (r"(a)?bc", True, True), (r"(?:(a)xy|b)", True, True), (r"(a)*c", True, True),
]
QUICK = {r"a|ab", r"a*b", r"(a)(b)?", r"a.*?b", r"\bab", r"ab$", r"(a)?bc", r"(a)*c"}

TINY = ["", "cap=1,clears=0", "det=1", "cap=64,clears=1", "cap=512,clears=6,det=2", "states=1"]


def alpha(p):
    return "utf8" if ("." in p or "[^" in p or r"\b" in p) else ""


def items(tier):
    out = []
    maxL = 3 if tier == "quick" else 4
    for p, caps, lbfree in E14:
        if tier == "quick" and p not in QUICK:
            continue
        a = alpha(p)
        Ls = [maxL] if tier == "quick" else range(0, (maxL if p in QUICK else maxL - 1) + 1)
        for L in Ls:
            for api in (["pike.Search", "pike.SlotTable", "bt.Search", "dfa.Find", "dfa.SearchFirstAt", "dfa.IsMatch", "dfa.Anchored", "dfa.Reverse"] if tier == "quick" else ["pike.Search", "pike.IsMatch", "pike.SlotTable", "bt.Search", "bt.IsMatch", "dfa.Find", "dfa.SearchFirstAt", "dfa.IsMatch", "dfa.Anchored", "dfa.Reverse"]):
                if api == "dfa.Reverse" and not lbfree:
                    continue
                out.append(mk("C14", p, api, L, a))
            if caps:
                for api in ["pike.Captures", "pike.SlotCaptures", "onepass.Search"]:
                    out.append(mk("C14", p, api, L, a))
        if lbfree:
            for at in ([1] if tier == "quick" else [1, 2]):
                for api in (["pike.SearchAt", "bt.Search", "dfa.SearchAt", "dfa.Anchored"] if tier == "quick" else ["pike.SearchAt", "pike.SlotTableAt", "pike.Between", "bt.Search", "dfa.Find", "dfa.SearchAt", "dfa.IsMatch", "dfa.Anchored"]):
                    out.append(mk("C14", p, api, maxL, a, n=at))
        else:
            # look-behind patterns at a start offset (reference: regexp on the whole ASCII haystack)
            for api in (["pike.SearchAt", "dfa.SearchAt"] if tier == "quick" else ["pike.SearchAt", "bt.Search", "dfa.Find", "dfa.SearchAt", "dfa.IsMatch"]):
                out.append(mk("C14", p, api, maxL, "ascii", n=1, mode=1))
        # tiny caches at a start offset: the NFA fall-back must still see the bytes before the offset
        for x in (TINY[1:3] if tier == "quick" else TINY[1:]):
            for api in (["dfa.SearchAt"] if tier == "quick" else ["dfa.Find", "dfa.SearchAt"]):
                out.append(mk("C14", p, api, maxL, a if lbfree else "ascii", n=1, mode=0 if lbfree else 1, extra=x))
        # cache too small to hold the automaton / clear budget exhausted / determinisation limit
        for x in TINY[1:] if tier != "quick" else TINY[1:3]:
            for api in ["dfa.Find", "dfa.IsMatch", "dfa.SearchFirstAt"] if tier != "quick" else ["dfa.Find"]:
                out.append(mk("C14", p, api, maxL, a, extra=x))
    return out


def evidence_extra(tier):
    b = bounds(tier, 3, 4, "engines: PikeVM (Search, SearchAt, IsMatch, slot-table, captures, SearchBetween), BoundedBacktracker (*WithState), lazy DFA (FindAt, SearchAt, SearchFirstAt, IsMatchAt, SearchAtAnchored, SearchReverse) under default and tiny cache configs, one-pass DFA")
    b["bounds"]["cache_configs"] = TINY
    return b
