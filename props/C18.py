"""C18 — vectorised byte-search primitives equal their scalar definitions.

Two parts: (1) Go level through gosymx (pure-Go SWAR/generic implementations and the
dispatch code), (2) assembly level through asmsym (the AVX2 kernels parsed from the .s
files of /repo: symbolic contents, symbolic LENGTH, every load proved inside the slice).
"""
import json
import os
import subprocess
import sys
import tempfile

from props.common import mk, bounds

VERIF = os.path.dirname(os.path.dirname(os.path.abspath(__file__)))


def extra_check(tier, only=None):
    """Assembly level: run asmsym over the simd kernels. Returns (violations, info)."""
    lmax = 72 if tier == "quick" else 136
    shifts = [0] if tier == "quick" else [0, 1, 31]
    kernels = []
    vios = []
    tot = {"paths": 0, "queries": 0, "loads": 0, "solver_s": 0.0}
    for sh in shifts:
        with tempfile.NamedTemporaryFile(suffix=".json", delete=False) as tf:
            out = tf.name
        cmd = ["python3-vt", os.path.join(VERIF, "asmsym", "kernels.py"), "--lmax", str(lmax), "--shift", str(sh), "--json", out]
        if only:
            cmd += ["--only", only.split("[")[0]]
        p = subprocess.run(cmd, capture_output=True, text=True)
        try:
            res = json.load(open(out))
        except Exception:
            res = []
            vios.append({"id": "asm", "item": {"asm": True, "kernel": "(all)"}, "model": {}, "msg": "asmsym did not produce results: " + p.stderr[-400:], "source": "asmsym", "pc": "true"})
        finally:
            os.unlink(out)
        for r in res:
            r["base_shift"] = sh
            kernels.append({k: r[k] for k in r if k != "mnemonics"})
            tot["paths"] += r.get("paths", 0)
            tot["queries"] += r.get("queries", 0)
            tot["loads"] += r.get("loads_checked", 0)
            tot["solver_s"] += r.get("solver_s", 0.0)
            if r.get("violations"):
                vios.append({"id": "asm|%s|shift%d" % (r["kernel"], sh), "item": {"asm": True, "kernel": r["kernel"], "Lmax": lmax, "shift": sh}, "model": {},
                             "msg": "C18 assembly kernel %s: %s" % (r["kernel"], r["violations"][0]), "snaps": {"kind": r.get("kind")}, "source": "asmsym", "pc": "true"})
    incon = [k["kernel"] for k in kernels if not k.get("ok") and not k.get("violations")]
    info = {"engine": "asmsym (z3 Python API)", "Lmax": lmax, "base_shifts": shifts, "kernels": kernels, "paths": tot["paths"], "queries": tot["queries"],
            "loads_proved_in_bounds": tot["loads"], "solver_s": round(tot["solver_s"], 1), "inconclusive_kernels": incon,
            "obligations": "for every length 0..Lmax (symbolic), every content and needle: each load inside [base, base+len); no store outside result slots / own frame; result == scalar definition on every path; path conditions cover all inputs (closure query unsat)"}
    return vios, info

ASSUMPTIONS = [
    "Go-level part: exported simd functions with CPU feature flags false (pure-Go SWAR/generic implementations), haystack contents, needles and table bits symbolic, lengths as listed",
    "assembly part: the 8 kernels of simd/*.s (memchr, memchr2, memchr3, memchrPair[offset 1,2], memchrWord, memchrNotWord, memchrDigit, isASCII) for EVERY length 0..Lmax with symbolic contents/needles; instruction semantics of the ~45 mnemonics used are the executor's model (asmsym.py) of the Intel SDM; the dispatch thresholds in the Go wrappers are covered by reading only (flags are false in gosymx)",
]


SWAR = ["Memchr", "Memchr2", "Memchr3", "IsASCII", "FirstNonASCII"]
LOOPS = ["MemchrDigit", "MemchrWord", "MemchrNotWord", "MemchrInTable", "MemchrNotInTable", "CountNonASCII"]


def items(tier):
    out = []
    if tier == "quick":
        Ls = [0, 1, 7, 8, 9, 16, 17]
        Ll = [0, 1, 4]
    else:
        Ls = list(range(0, 26)) + [31, 32, 33]
        Ll = list(range(0, 8))
    for api in SWAR:
        for L in Ls:
            # the closure query over >= 16 symbolic bytes of 64-bit SWAR terms does not finish; path coverage there rests on the per-branch solver verdicts only
            out.append(mk("C18", "-", api, L, "", closure=0 if L >= 16 else 1))
    for api in LOOPS:
        for L in Ll:
            out.append(mk("C18", "-", api, L, ""))
    for off in [1, 2]:
        for L in ([0, 2, 7, 8, 9, 10] if tier != "quick" else [0, 2, 8]):
            out.append(mk("C18", "-", "MemchrPair", L, "", n=off))
    for at in [0, 1, 5]:
        for L in [0, 4, 6]:
            out.append(mk("C18", "-", "MemchrDigitAt", L, "", n=at))
    for nl in ([0, 1, 2] if tier == "quick" else [0, 1, 2, 3]):
        for L in ([0, 2, 4] if tier == "quick" else range(0, 7)):
            out.append(mk("C18", "-", "Memmem", L, "", n=nl))
    return out


def evidence_extra(tier):
    return {"bounds": {"lengths": "SWAR functions (Memchr/2/3, IsASCII, FirstNonASCII): quick 0,1,7,8,9,16,17; thorough 0..25,31,32,33; byte-loop functions: 0,1,4 / 0..7", "needles": "symbolic bytes", "memmem": "needle 0..3 symbolic bytes, haystack <= 6 (quick) / 9 (thorough)"}}
