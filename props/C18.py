"""C18 — vectorised byte-search primitives equal their scalar definitions (Go level)."""
from props.common import mk, bounds

ASSUMPTIONS = ["Go-level part: exported simd functions with CPU feature flags false (pure-Go SWAR/generic implementations), haystack contents, needles and table bits symbolic, lengths as listed; the AVX2/SSSE3 assembly kernels are NOT covered by this Go-level check"]


SWAR = ["Memchr", "Memchr2", "Memchr3", "IsASCII", "FirstNonASCII"]
LOOPS = ["MemchrDigit", "MemchrWord", "MemchrNotWord", "MemchrInTable", "MemchrNotInTable", "CountNonASCII"]


def items(tier):
    out = []
    if tier == "quick":
        Ls = [0, 1, 7, 8, 9, 16, 17]
        Ll = [0, 1, 4]
    else:
        Ls = list(range(0, 26)) + [31, 32, 33]
        Ll = list(range(0, 8))
    for api in SWAR:
        for L in Ls:
            # the closure query over >= 16 symbolic bytes of 64-bit SWAR terms does not finish; path coverage there rests on the per-branch solver verdicts only
            out.append(mk("C18", "-", api, L, "", closure=0 if L >= 16 else 1))
    for api in LOOPS:
        for L in Ll:
            out.append(mk("C18", "-", api, L, ""))
    for off in [1, 2]:
        for L in ([0, 2, 7, 8, 9, 10] if tier != "quick" else [0, 2, 8]):
            out.append(mk("C18", "-", "MemchrPair", L, "", n=off))
    for at in [0, 1, 5]:
        for L in [0, 4, 6]:
            out.append(mk("C18", "-", "MemchrDigitAt", L, "", n=at))
    for nl in ([0, 1, 2] if tier == "quick" else [0, 1, 2, 3]):
        for L in ([0, 2, 4] if tier == "quick" else range(0, 7)):
            out.append(mk("C18", "-", "Memmem", L, "", n=nl))
    return out


def evidence_extra(tier):
    return {"bounds": {"lengths": "SWAR functions (Memchr/2/3, IsASCII, FirstNonASCII): quick 0,1,7,8,9,16,17; thorough 0..25,31,32,33; byte-loop functions: 0,1,4 / 0..7", "needles": "symbolic bytes", "memmem": "needle 0..3 symbolic bytes, haystack <= 6 (quick) / 9 (thorough)"}}
