"""C09 — Compile accepts stdlib's language and reports stdlib's metadata; QuoteMeta."""
from props.common import mk

ASSUMPTIONS = [
    "patterns: each corpus pattern of H09 with ONE position replaced by a symbolic byte ranging over the metacharacter alphabet M (Hamming-1 neighbourhood), plus (thorough) every 2-byte pattern over M; arbitrary long patterns are outside the claim",
    "QuoteMeta: every byte string of length <= 3 (quick) / 4 (thorough); Compile(QuoteMeta(s)) matches exactly s: s and t of length <= 2 over a small alphabet",
]

M = "a*+?()[]|\\.^$-{}1,:<>P"
H09 = [r"(?P<n>a)(?P<n>b)", r"(?P<n>a){2}", r"(?:x(?P<n>y)){1,2}", r"a+b", r"(a)|b", r"[a-c]x", r"a{1,2}", r"(?i)ab", r"\d+x", r"(?P<n>a)b", r"a\.b", r"^ab$", r"a|b|c", r"[^a]b", r"(a*)+b", r"x{2}y"]
QUICK = [r"(?P<n>a)(?P<n>b)", r"(?P<n>a){2}", r"a+b", r"(a)|b", r"\d+x"]   # first entry: a group name declared twice


def holes(p):
    for i in range(len(p)):
        yield p[:i] + "\x00" + p[i + 1:], i


def items(tier):
    out = []
    for L in range(0, 4 if tier == "quick" else 5):
        out.append(mk("C09", "", "QuoteMeta", L, ""))
    for L in ([1, 2] if tier == "quick" else [1, 2, 3]):
        out.append(mk("C09", "", "QuoteMetaCompile", L, "hex:" + ("a.\\".encode().hex() + "c3a9ff" if tier == "quick" else "ab.*\\[".encode().hex() + "c3a9ff"), timeout_s=900))
    for p in (QUICK if tier == "quick" else H09):
        for hp, i in holes(p):
            d = mk("C09", hp, "compile", 0, "set:" + M, timeout_s=600, extra=p[i])
            d["id"] = "C09|%s|compile|hole%d" % (p, i)
            out.append(d)
        if tier != "quick":
            for hp, i in holes(p):
                d = mk("C09", hp, "compileposix", 0, "set:" + M, timeout_s=600, extra=p[i])
                d["id"] = "C09|%s|compileposix|hole%d" % (p, i)
                out.append(d)
    if tier == "quick":
        # CompilePOSIX acceptance on Perl-only syntax (regexp rejects \d, lazy operators, flags)
        for p in [r"\d+", r"a+?"]:
            for hp, i in holes(p):
                d = mk("C09", hp, "compileposix", 0, "set:" + M, timeout_s=600, extra=p[i])
                d["id"] = "C09|%s|compileposix|hole%d" % (p, i)
                out.append(d)
    if tier != "quick":
        d = mk("C09", "\x00\x00", "compile", 0, "set:" + M, timeout_s=1700)
        d["id"] = "C09|2-byte patterns|compile"
        out.append(d)
    return out


def evidence_extra(tier):
    return {"bounds": {"metachar_alphabet": M, "patterns": QUICK if tier == "quick" else H09, "quotemeta_len": 3 if tier == "quick" else 4}}
