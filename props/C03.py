"""C03 — capture-group positions equal stdlib's."""
from props import corpus
from props.common import mk, alpha_for, bounds

ASSUMPTIONS = ["patterns: corpus P1 entries tagged cap; haystacks: all byte strings of the listed lengths (utf8(L) where stated)"]


def items(tier):
    out = []
    maxL = 3 if tier == "quick" else 4
    for p, strat, tags in corpus.entries(tier, tag="cap"):
        a = alpha_for(p)
        for L in corpus.lengths(tags, tier, maxL):
            out.append(mk("C03", p, "FindSubmatchIndex", L, a, strategy=strat))
        for api in ["FindStringSubmatchIndex", "FindSubmatch", "FindStringSubmatch"]:
            out.append(mk("C03", p, api, 2, a, strategy=strat))
        for pre, post in corpus.windows(p):
            out.append(mk("C03", p, "FindSubmatchIndex", 3, a, strategy=strat, pre=pre, post=post))
    return out


def evidence_extra(tier):
    return bounds(tier, 3, 4)
