"""C16 — prefilters never skip a match; complete prefilters are exact.

Go level (gosymx): every prefilter implementation through its public constructor vs the
naive definition. Assembly level (asmsym): the slim Teddy SSSE3/AVX2 candidate kernels vs
the scalar candidate definition, for EVERY mask table (all 264 table bytes symbolic) and
every haystack length 0..Lmax, with every load proved in bounds.
"""
import json
import os
import subprocess
import tempfile

from props.common import mk, bounds

VERIF = os.path.dirname(os.path.dirname(os.path.abspath(__file__)))


def extra_check(tier, only=None):
    lmax = 18 if tier == "quick" else 40
    with tempfile.NamedTemporaryFile(suffix=".json", delete=False) as tf:
        out = tf.name
    cmd = ["python3-vt", os.path.join(VERIF, "asmsym", "kernels.py"), "--set", "teddy", "--lmax", str(lmax), "--json", out]
    if only:
        cmd += ["--only", only]
    elif tier == "quick":
        cmd += ["--only", "teddySlimSSSE3_2,teddySlimAVX2_1,fatTeddyAVX2_2"]
    p = subprocess.run(cmd, capture_output=True, text=True)
    vios, kernels = [], []
    tot = {"paths": 0, "queries": 0, "loads": 0, "solver_s": 0.0}
    try:
        res = json.load(open(out))
    except Exception:
        res = []
        vios.append({"id": "asm", "item": {"asm": True, "kernel": "(teddy)"}, "model": {}, "msg": "asmsym did not produce results: " + p.stderr[-400:], "source": "asmsym", "pc": "true"})
    finally:
        os.unlink(out)
    for r in res:
        kernels.append({k: r[k] for k in r if k != "mnemonics"})
        tot["paths"] += r.get("paths", 0)
        tot["queries"] += r.get("queries", 0)
        tot["loads"] += r.get("loads_checked", 0)
        tot["solver_s"] += r.get("solver_s", 0.0)
        if r.get("violations"):
            vios.append({"id": "asm|%s" % r["kernel"], "item": {"asm": True, "kernel": r["kernel"], "Lmax": lmax}, "model": {},
                         "msg": "C16 assembly kernel %s: %s" % (r["kernel"], r["violations"][0]), "snaps": {"kind": r.get("kind")}, "source": "asmsym", "pc": "true"})
    info = {"engine": "asmsym (z3 Python API)", "Lmax": lmax, "kernels": kernels, "paths": tot["paths"], "queries": tot["queries"], "loads_proved_in_bounds": tot["loads"],
            "solver_s": round(tot["solver_s"], 1), "inconclusive_kernels": [k["kernel"] for k in kernels if not k.get("ok") and not k.get("violations")],
            "obligations": "teddySlimSSSE3_1/_2 and teddySlimAVX2_1/_2: for every mask table (264 symbolic bytes; AVX2: upper half of each 32-byte row assumed equal to the lower half, the documented layout), every content and every length 0..Lmax: (pos, bucketMask) == the scalar candidate definition (least i with i+fpLen <= len and non-zero AND of the nibble look-ups), every haystack/table load in bounds, no store outside the result slots",
            "fat_teddy": "fatTeddyAVX2_2 is checked against a relational contract (no true candidate is skipped: pos <= first true candidate, mask contains the true buckets there, pos < len), not against equality with the scalar candidate function: the real kernel reports spurious candidates (e.g. at position 0), which the Go verification loop filters out; confirmed natively",
            "not_covered": "fatTeddyAVX2_2Batch (writes a candidate buffer; not yet encoded)"}
    return vios, info

ASSUMPTIONS = [
    "Go level: literal-set corpus L16; CPU vector flags are false in the symbolic run (pure-Go paths of Teddy, memchr/memmem wrappers, Aho-Corasick, digit scanner, wrappers, tracker)",
    "assembly level: the four slim Teddy kernels for all mask tables and all lengths <= Lmax; the composition kernel + Go verification loop under real vector flags is not executed jointly (assume-guarantee: the kernels equal the scalar candidate function the Go-level check exercises); the batch variant of the Fat Teddy kernel is not covered",
]

# (literal set, kinds)
L16 = [
    ("a", ["builder", "wrap-incomplete", "tracker"]),
    ("ab", ["builder"]),
    ("abc", ["builder", "teddy"]),
    ("ab|cd", ["builder", "teddy"]),
    ("foo|bar|baz", ["builder", "teddy", "fatteddy", "wrap-lineanchor"]),
    ("abc|abd|bcd", ["builder", "teddy"]),          # shared fingerprints
    ("ab|abc", ["builder", "teddy"]),               # prefix of another literal
    ("abc|ab", ["builder", "teddy"]),               # order matters for leftmost-first
    ("a|b|c", ["builder"]),
    ("xa|ya|za|wa", ["builder", "teddy"]),
    ("foobar|baz", ["builder", "teddy", "fatteddy"]),   # mixed lengths, longer literal listed first
    ("baz|foobar", ["teddy", "fatteddy"]),
    ("abcd|xyz|abcdef", ["teddy", "fatteddy"]),
    ("", ["digit"]),
]
# many-literal sets that make the builder select Fat Teddy (33..64) and Aho-Corasick (>64)
MANY40 = "|".join(["lit%02dx" % i for i in range(20)] + ["s%02d" % i for i in range(20)])
MANY70 = "|".join(["w%02dz" % i for i in range(70)])
QUICK = {"a", "abc", "ab|cd", "ab|abc", "abc|ab", "foo|bar|baz", "foobar|baz", "abcd|xyz|abcdef", ""}


def items(tier):
    out = []
    L = 3 if tier == "quick" else 4
    for lits, kinds in L16:
        if tier == "quick" and lits not in QUICK:
            continue
        for kind in kinds:
            for complete in ([0, 1] if kind in ("builder", "teddy", "fatteddy") else [1] if kind == "wrap-lineanchor" else [0]):
                for s in ([0, 1] if tier == "quick" else [0, 1, 2]):
                    out.append(mk("C16", lits, kind, L, "", mode=complete, n=s))
                if kind == "wrap-lineanchor":
                    # a literal exactly AT the start offset, after a non-newline / after a newline
                    out.append(mk("C16", lits, kind, 3, "", mode=complete, n=1, pre="x"))
                    out.append(mk("C16", lits, kind, 3, "", mode=complete, n=3, pre="foo"))
                    out.append(mk("C16", lits, kind, 3, "", mode=complete, n=4, pre="foo\n"))
                # windows crossing the 16-byte switch of Teddy's scalar/vector split
                if kind in ("teddy", "fatteddy", "builder") and tier != "quick":
                    out.append(mk("C16", lits, kind, 3, "", mode=complete, n=0, pre="x" * 14, post="y" * 3))
                    out.append(mk("C16", lits, kind, 3, "", mode=complete, n=5, pre="x" * 30, post="y" * 40))
    # short haystacks (scalar paths of the multi-literal searchers): the literal may end exactly at the end
    for lits, kinds in L16:
        if tier == "quick" and lits not in QUICK:
            continue
        for kind in kinds:
            if kind in ("teddy", "fatteddy"):
                out.append(mk("C16", lits, kind, 3, "", mode=0, n=0, pre="xx"))
                out.append(mk("C16", lits, kind, 3, "", mode=0, n=2, pre="xx", post="q"))
                if tier != "quick":
                    out.append(mk("C16", lits, kind, 3, "", mode=0, n=16, pre="0123456789abcdefxx"))
    out.append(mk("C16", MANY40, "builder", 3, "hex:" + b"s07lix ".hex(), mode=0, n=0, pre="abc "))
    out.append(mk("C16", MANY40, "builder", 3, "hex:" + b"s07lix ".hex(), mode=0, n=0, pre="lit07"))
    out.append(mk("C16", MANY70, "builder", 3, "hex:" + b"w07z ".hex(), mode=0, n=0, pre="w0"))
    return out


def evidence_extra(tier):
    return bounds(tier, 3, 4, "haystack full(L); start offset 0..2; Mode 1 marks the literals complete")
