"""C16 — prefilters never skip a match; complete prefilters are exact."""
from props.common import mk, bounds

ASSUMPTIONS = ["literal-set corpus L16; CPU vector flags are false in the symbolic run (pure-Go paths of Teddy etc.); the assembly kernels are outside this check (C18 covers the simd primitives that are encodable)"]

# (literal set, kinds)
L16 = [
    ("a", ["builder", "wrap-incomplete", "tracker"]),
    ("ab", ["builder"]),
    ("abc", ["builder", "teddy"]),
    ("ab|cd", ["builder", "teddy"]),
    ("foo|bar|baz", ["builder", "teddy", "fatteddy"]),
    ("abc|abd|bcd", ["builder", "teddy"]),          # shared fingerprints
    ("ab|abc", ["builder", "teddy"]),               # prefix of another literal
    ("abc|ab", ["builder", "teddy"]),               # order matters for leftmost-first
    ("a|b|c", ["builder"]),
    ("xa|ya|za|wa", ["builder", "teddy"]),
    ("foobar|baz", ["builder", "teddy", "fatteddy"]),   # mixed lengths, longer literal listed first
    ("baz|foobar", ["teddy", "fatteddy"]),
    ("abcd|xyz|abcdef", ["teddy", "fatteddy"]),
    ("", ["digit"]),
]
# many-literal sets that make the builder select Fat Teddy (33..64) and Aho-Corasick (>64)
MANY40 = "|".join(["lit%02dx" % i for i in range(20)] + ["s%02d" % i for i in range(20)])
MANY70 = "|".join(["w%02dz" % i for i in range(70)])
QUICK = {"a", "abc", "ab|cd", "ab|abc", "abc|ab", "foo|bar|baz", "foobar|baz", "abcd|xyz|abcdef", ""}


def items(tier):
    out = []
    L = 3 if tier == "quick" else 4
    for lits, kinds in L16:
        if tier == "quick" and lits not in QUICK:
            continue
        for kind in kinds:
            for complete in ([0, 1] if kind in ("builder", "teddy", "fatteddy") else [0]):
                for s in ([0, 1] if tier == "quick" else [0, 1, 2]):
                    out.append(mk("C16", lits, kind, L, "", mode=complete, n=s))
                # windows crossing the 16-byte switch of Teddy's scalar/vector split
                if kind in ("teddy", "fatteddy", "builder") and tier != "quick":
                    out.append(mk("C16", lits, kind, 3, "", mode=complete, n=0, pre="x" * 14, post="y" * 3))
                    out.append(mk("C16", lits, kind, 3, "", mode=complete, n=5, pre="x" * 30, post="y" * 40))
    # short haystacks (scalar paths of the multi-literal searchers): the literal may end exactly at the end
    for lits, kinds in L16:
        if tier == "quick" and lits not in QUICK:
            continue
        for kind in kinds:
            if kind in ("teddy", "fatteddy"):
                out.append(mk("C16", lits, kind, 3, "", mode=0, n=0, pre="xx"))
                out.append(mk("C16", lits, kind, 3, "", mode=0, n=2, pre="xx", post="q"))
                if tier != "quick":
                    out.append(mk("C16", lits, kind, 3, "", mode=0, n=16, pre="0123456789abcdefxx"))
    out.append(mk("C16", MANY40, "builder", 3, "hex:" + b"s07lix ".hex(), mode=0, n=0, pre="abc "))
    out.append(mk("C16", MANY40, "builder", 3, "hex:" + b"s07lix ".hex(), mode=0, n=0, pre="lit07"))
    out.append(mk("C16", MANY70, "builder", 3, "hex:" + b"w07z ".hex(), mode=0, n=0, pre="w0"))
    return out


def evidence_extra(tier):
    return bounds(tier, 3, 4, "haystack full(L); start offset 0..2; Mode 1 marks the literals complete")
