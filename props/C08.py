"""C08 — Replace, Expand and Split produce stdlib's output."""
from props import corpus
from props.common import mk, alpha_for, bounds

ASSUMPTIONS = ["Expand: template = N symbolic bytes over the alphabet {$ { } 0 1 2 a n x _ -}, src and match vector concrete (match of the pattern on src); Replace*/Split: source text symbolic (full(L)/utf8(L)), replacement template concrete plus optional symbolic bytes; Split limit n symbolic in [-1,4]"]

EXPAND = [
    (r"(?P<n>a+)(b)?", "aab"), (r"(?P<n>a+)(b)?", "aa"),
    (r"(a)(b)(c)(d)(e)(f)(g)(h)(i)(j)(k)(l)", "abcdefghijkl"),
    (r"(?P<a1>x)(?P<x>y)?", "x"),
]
REPL = [(r"a+", "<$0>"), (r"(a)(b)?", "$2$1"), (r"(?P<n>a)|b", "${n}x"), (r"a*", "-"), (r"\bx", "$0$0"), (r"[a-z]+", "$")]
SPLIT = [r"a", r"a*", r",", r"\s+", r"x*", r"ab|b"]


def items(tier):
    out = []
    tn = 3 if tier == "quick" else 4
    for p, src in EXPAND:
        for n in range(0, tn + 1):
            out.append(mk("C08", p, "Expand", 0, n=n, extra=src))
        out.append(mk("C08", p, "ExpandString", 0, n=2, extra=src))
    L = 3 if tier == "quick" else 4
    for p, t in REPL:
        a = alpha_for(p)
        for api in ["ReplaceAll", "ReplaceAllString", "ReplaceAllLiteral", "ReplaceAllLiteralString", "ReplaceAllFunc", "ReplaceAllStringFunc"]:
            out.append(mk("C08", p, api, L if api in ("ReplaceAll", "ReplaceAllLiteral") else 2, a, extra=t))
        out.append(mk("C08", p, "ReplaceAll", 2, a, n=1, extra="$"))
        out.append(mk("C08", p, "ReplaceAllString", 1, a, n=2, extra="$"))
    for p in SPLIT:
        a = alpha_for(p)
        for l in range(0, L + 1):
            out.append(mk("C08", p, "Split", l, a, n=99))
    return out


def evidence_extra(tier):
    return bounds(tier, 3, 4, "Expand templates up to %d symbolic bytes" % (3 if tier == "quick" else 4))
