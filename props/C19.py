"""C19 — specialised fast paths are exact on every pattern they accept."""
from props import corpus
from props.common import mk, bounds

ASSUMPTIONS = ["whitelist-boundary corpus P19 (accepted examples and single-node mutations of them); a pattern the applicability predicate rejects is recorded as not-applicable (nothing to check); reference = regexp at offset 0, PikeVM.SearchAt (checked in C14) for offsets > 0"]

P19 = {
    "charclass": [r"[a-z]+", r"\w+", r"[a-z]*", r"[a-z]+?", r"[^a-z]+", r"[a-zé]+", r"(?i)[a-z]+", r"([a-z]+)", r"[a-z]{2,}", r"[a-z]+$", r"\s+", r"[\x00-\x7f]+", r"[a-z]"],
    "composite": [r"[a-z]+[0-9]+", r"[a-z]*[0-9]+", r"[a-z]+[0-9]*", r"[a-z]?[0-9]", r"[a-z]+?[0-9]+", r"[a-z]+[a-z]+", r"\w+[0-9]+", r"[a-z]+[0-9]+[a-z]+", r"[a-z]{2}[0-9]", r"[0-9]+[a-z]*[0-9]", r"[a-z0-9]+[0-9]", r"[a-z]*[a-z]"],
    "compositedfa": [r"[a-z]+[0-9]+", r"\w+[0-9]+", r"[a-z]+[a-z]+", r"[a-z0-9]+[0-9]", r"[a-z]*[0-9]+", r"[0-9]+[a-z]*[0-9]", r"[a-z]+[0-9]+[a-z]+", r"[a-z]?[0-9]"],
    "branch": [r"^(ab|cd)", r"^(a|ab)", r"^(ab|a)", r"^(\d+|x)", r"^(?:\w|@|$)ab", r"^(a*|b)", r"^(?:ab|cd)e", r"^(a|b|)c", r"^([ab]|c)d", r"^(ab|cd|ef)", r"^(ab|\bcd)", r"^(?i:ab|cd)"],
    "anchoredliteral": [r"^a.*c$", r"^a.+c$", r"^.*c$", r"^a.*[b-d]+c$", r"(?s)^a.*c$", r"(?m)^a.*c$", r"^a.*?c$", r"^a.*c\z", r"^ab.*cd$", r"^a.*\.c$", r"\Aa.*c$", r"^a.*é$"],
    "engine": [r".*ab", r".+ab", r".*?ab", r"[^x]*ab", r"(?s).*ab", r".*ab$", r".*(ab|cd)", r".*ab.*", r".+ab.+", r"x.*ab.*y", r"(?m)^.*ab", r"(?m)^/.*\.js", r"\d+ab",
               r"\d+\.\d+", r"(\d+)-(\d+)", r"\d*x", r"ab$", r"(a|b)$", r"\bab$", r"[a-z]+(?:\b-){1,2}e", r"[a-z]+\.tx", r".*\.(tx|lo)", r"\w+@\w+", r"^(ab|cd)", r"^a.*c$", r"[a-z]+[0-9]+", r"[a-z]+", r"(?i)ab|cd", r"a.*b$"],
}
# windows for patterns whose interesting matches are longer than the symbolic part
WIN19 = {r"[a-z]+(?:\b-){1,2}e": [("a", ""), ("a-", "")], r".*ab$": [("", "b")], r"\d+ab": [("1", "")], r"x.*ab.*y": [("x", "y")], r"(?m)^/.*\.js": [("/", "s")], r"\w+@\w+": [("a", "")]}
QUICK = {
    "charclass": 5, "composite": 6, "compositedfa": 4, "branch": 6, "anchoredliteral": 7, "engine": 21,
}


def alpha(p):
    return "utf8" if corpus.uses_anychar(p) else ""


def items(tier):
    out = []
    L = 3 if tier == "quick" else 4
    for api, pats in P19.items():
        if tier == "quick":
            pats = pats[:QUICK[api]]
        for p in pats:
            a = alpha(p)
            ats = [0, 1] if tier == "quick" else [0, 1, 2]
            if api in ("branch", "anchoredliteral"):
                ats = [0]
            for at in ats:
                out.append(mk("C19", p, api, L, a, n=at))
            if api == "engine":
                out.append(mk("C19", p, "engine.IsMatch", L, a))
                for pre, post in WIN19.get(p, []) + corpus.windows(p):
                    out.append(mk("C19", p, "engine", L, a, n=0, pre=pre, post=post))
                    out.append(mk("C19", p, "engine.IsMatch", L, a, pre=pre, post=post))
            if tier != "quick":
                out.append(mk("C19", p, api, 2, a, n=0))
    return out


def evidence_extra(tier):
    return bounds(tier, 3, 4, "start offsets 0..1 (quick) / 0..2 (thorough)")
