"""C19 — specialised fast paths are exact on every pattern they accept."""
from props import corpus
from props.common import mk, bounds

ASSUMPTIONS = ["whitelist-boundary corpus P19 (accepted examples and single-node mutations of them); a pattern the applicability predicate rejects is recorded as not-applicable (nothing to check); reference = regexp at offset 0, PikeVM.SearchAt (checked in C14) for offsets > 0"]

P19 = {
    "charclass": [r"[a-z]+", r"\w+", r"[a-z]*", r"[a-z]+?", r"[^a-z]+", r"[a-zé]+", r"(?i)[a-z]+", r"([a-z]+)", r"[a-z]{2,}", r"[a-z]+$", r"\s+", r"[\x00-\x7f]+", r"[a-z]"],
    "composite": [r"[a-z]+[0-9]+", r"[a-z]*[0-9]+", r"[a-z]+[0-9]*", r"[a-z]?[0-9]", r"[a-z]+?[0-9]+", r"[a-z]+[a-z]+", r"\w+[0-9]+", r"[a-z]+[0-9]+[a-z]+", r"[a-z]{2}[0-9]", r"[0-9]+[a-z]*[0-9]", r"[a-z0-9]+[0-9]", r"[a-z]*[a-z]"],
    "compositedfa": [r"[a-z]+[0-9]+", r"\w+[0-9]+", r"[a-z]+[a-z]+", r"[a-z0-9]+[0-9]", r"[a-z]*[0-9]+", r"[0-9]+[a-z]*[0-9]", r"[a-z]+[0-9]+[a-z]+", r"[a-z]?[0-9]"],
    "branch": [r"^(ab|cd)", r"^(a|ab)", r"^(ab|a)", r"^(\d+|x)", r"^(?:\w|@|$)ab", r"^(a*|b)", r"^(?:ab|cd)e", r"^(a|b|)c", r"^([ab]|c)d", r"^(ab|cd|ef)", r"^(ab|\bcd)", r"^(?i:ab|cd)"],
    "anchoredliteral": [r"^a.*c$", r"^a.+c$", r"^.*c$", r"^a.*[b-d]+c$", r"(?s)^a.*c$", r"(?m)^a.*c$", r"^a.*?c$", r"^a.*é$", r"^a.*c\z", r"^ab.*cd$", r"^a.*\.c$", r"\Aa.*c$"],
    "engine": [r".*ab", r".+ab", r".*?ab", r"[^x]*ab", r"(?s).*ab", r".*ab$", r".*(ab|cd)", r".*ab.*", r".+ab.+", r"x.*ab.*y", r"(?m)^.*ab", r"(?m)^/.*\.js", r"\d+ab",
               r"\d+\.\d+", r"(\d+)-(\d+)", r"\d*x", r"ab$", r"(a|b)$", r"\bab$", r"[a-z]+(?:\b-){1,2}e", r"[a-z]+\.tx", r".*\.(tx|lo)", r"\w+@\w+", r"^(ab|cd)", r"^a.*c$", r"[a-z]+[0-9]+", r"[a-z]+", r"(?i)ab|cd", r"a.*b$"],
}
# one pattern (or more) per strategy of meta.SelectStrategy, driven through Engine.Find / FindAt / FindIndices(At)
# (meta/find.go has its own dispatch over every strategy); AC = 72 complete literals (UseAhoCorasick)
AC = "|".join(c1 + c2 for c1 in "abcdefghj" for c2 in "klmnopqr")
FINDPATS = [r"\bx", r"a|ab", r"(.+)-(\d+)", r"(a|b)+", r"[a-z]+", r"[a-z]+[0-9]+", r"^(ab|cd|ef)", r"foo|bar", r"abc|abd|xyz\d", AC, r"\d+\.\d+",
            r"ab$", r".*\.tx", r"[a-z]+\.(tx|lo|md)", r".*co.*", r"\w+@\w+\.\w+", r"(?m)^/.*\.js", r"^a.*c$", r"foo[a-z]{40}x", r"(?i)ab|cd"]
WINFIND = {r"foo[a-z]{40}x": [("foo" + "a" * 39, "x")], r"abc|abd|xyz\d": [("xyz", ""), ("ab", "")], AC: [("a", ""), ("xj", "")]}
LONG19 = {
    "charclass": [(r"[a-z]+", "a-1"), (r"\w+", "a- "), (r"[^a-z]+", "a-1"), (r"[a-z]{2,}", "a-1")],
    "composite": [(r"[a-z]+[0-9]+[a-z]+", "a1-"), (r"[a-z]+[0-9]+", "a1-"), (r"[a-z]*[0-9]+", "a1-"), (r"[a-z]+[0-9]*", "a1-"), (r"[a-z]{2}[0-9]", "a1-"), (r"[0-9]+[a-z]*[0-9]", "a1-")],
    "compositedfa": [(r"[a-z]+[0-9]+[a-z]+", "a1-"), (r"[a-z]+[0-9]+", "a1-"), (r"[a-z]+[a-z]+", "a1-"), (r"[0-9]+[a-z]*[0-9]", "a1-"), (r"[a-z]?[0-9]", "a1-")],
    "engine": [(r"[a-z]+[0-9]+[a-z]+", "a1-"), (r"[a-z]+\s+[0-9]+", "a1 "), (r"[ab]+[12]+[ab]+[xy]+", "a1x"), (r"[a-z]{2,}[0-9]+", "a1-")],
}
# windows for patterns whose interesting matches are longer than the symbolic part
WIN19 = {r".*?ab": [("a", ""), ("ab", "")], r"[a-z]+(?:\b-){1,2}e": [("a", ""), ("a-", "")], r".*ab$": [("", "b")], r"\d+ab": [("1", "")], r"x.*ab.*y": [("x", "y")], r"(?m)^/.*\.js": [("/", "s")], r"\w+@\w+": [("a", "")]}
QUICK = {
    "charclass": 5, "composite": 6, "compositedfa": 4, "branch": 6, "anchoredliteral": 8, "engine": 21,
}


def alpha(p):
    return "utf8" if corpus.uses_anychar(p) else ""


def items(tier):
    out = []
    L = 3 if tier == "quick" else 4
    for api, pats in P19.items():
        if tier == "quick":
            pats = pats[:QUICK[api]]
        for p in pats:
            a = alpha(p)
            ats = [0, 1] if tier == "quick" else [0, 1, 2]
            if api in ("branch", "anchoredliteral"):
                ats = [0]
            for at in ats:
                out.append(mk("C19", p, api, L, a, n=at))
            if api == "engine":
                out.append(mk("C19", p, "engine.IsMatch", L, a))
                for pre, post in WIN19.get(p, []) + corpus.windows(p):
                    out.append(mk("C19", p, "engine", L, a, n=0, pre=pre, post=post))
                    out.append(mk("C19", p, "engine.IsMatch", L, a, pre=pre, post=post))
            if tier != "quick":
                out.append(mk("C19", p, api, 2, a, n=0))
    # the specialised searchers have 4x unrolled loops: every position of a round (and the tail after it) needs haystacks
    # of 7-9 bytes; the classes are exercised by one representative byte each, so the alphabet is 3 symbols
    for api, pats in LONG19.items():
        for p, al in (pats if tier != "quick" else pats[:3] if api != "engine" else pats[:4]):
            for LL in ([7] if tier == "quick" else [7, 9]):
                for at in ([0] if tier == "quick" else [0, 1]):
                    out.append(mk("C19", p, api, LL, "hex:" + al.encode().hex(), n=at))
    for p in FINDPATS:
        a = alpha(p)
        for at in ([0, 1] if tier == "quick" else [0, 1, 2]):
            out.append(mk("C19", p, "engine.Find", L, a, n=at))
        for pre, post in WINFIND.get(p, []) + WIN19.get(p, []) + corpus.windows(p):
            out.append(mk("C19", p, "engine.Find", 3, a, n=0, pre=pre, post=post))
            out.append(mk("C19", p, "engine.IsMatch", 3, a, pre=pre, post=post))
    return out


def evidence_extra(tier):
    return bounds(tier, 3, 4, "start offsets 0..1 (quick) / 0..2 (thorough)")
