"""C10 — leftmost-longest mode matches stdlib's Longest/POSIX semantics."""
from props import corpus
from props.common import mk, alpha_for, bounds

ASSUMPTIONS = ["patterns: corpus P1 (POSIX mode: those CompilePOSIX accepts); haystacks as C02"]

POSIX_OK = None


def items(tier):
    out = []
    maxL = 3 if tier == "quick" else 4
    for p, strat, tags in corpus.entries(tier):
        a = alpha_for(p)
        for L in ([] if corpus.windows_only(tags, tier) else [2, maxL] if tier == "quick" else corpus.lengths(tags, tier, maxL)):
            out.append(mk("C10", p, "FindIndex", L, a, mode=1, strategy=strat))
        out.append(mk("C10", p, "Match", 2, a, mode=1, strategy=strat))
        out.append(mk("C10", p, "FindAllIndex", 2, a, mode=1, strategy=strat))
        if "cap" in tags:
            out.append(mk("C10", p, "FindSubmatchIndex", maxL, a, mode=1, strategy=strat))
            for pre, post in corpus.windows(p):
                out.append(mk("C10", p, "FindSubmatchIndex", maxL, a, mode=1, strategy=strat, pre=pre, post=post))
                out.append(mk("C10", p, "FindIndex", maxL, a, mode=1, strategy=strat, pre=pre, post=post))
        out.append(mk("C10", p, "CopyIsolation", 2, a, mode=0, strategy=strat, step_limit=60000000))  # Copy recompiles inside the run
        if corpus.posix_ok(p):
            out.append(mk("C10", p, "FindIndex", 2, a, mode=2, strategy=strat))
    return out


def evidence_extra(tier):
    return bounds(tier, 3, 4, "Mode 1 = Longest(), Mode 2 = CompilePOSIX; CopyIsolation compares re and re.Copy().Longest() on the same haystack")
