// replay executes harness items natively (real build of /repo) on concrete
// models produced by the symbolic executor.
//
// stdin:  JSON lines {"id":..., "item":{...Item fields...}, "cases":[{"m":{var:val}}]}
// stdout: JSON lines {"id":..., "error":..., "results":[{"k":kind,"msg":..,"s":{snaps},"r":[reach]}]}
package main

import (
	"bufio"
	"encoding/json"
	"fmt"
	"os"
	"runtime/debug"
	"time"

	"verifh/hz"
	"verifh/verif"
)

type caseIn struct {
	M map[string]uint64 `json:"m"`
}

type reqIn struct {
	ID    string          `json:"id"`
	Item  json.RawMessage `json:"item"`
	Cases []caseIn        `json:"cases"`
}

type caseOut struct {
	K   string            `json:"k"`
	Msg string            `json:"msg,omitempty"`
	S   map[string]string `json:"s,omitempty"`
	R   []string          `json:"r,omitempty"`
	Ms  float64           `json:"ms"`
}

type respOut struct {
	ID      string    `json:"id"`
	Error   string    `json:"error,omitempty"`
	Results []caseOut `json:"results"`
}

func runCase(ctx any, it *hz.Item, m map[string]uint64) (out caseOut) {
	verif.SetModel(m)
	t0 := time.Now()
	defer func() {
		out.Ms = float64(time.Since(t0).Microseconds()) / 1000
		out.S = verif.Snaps
		out.R = verif.Reached
		if r := recover(); r != nil {
			switch p := r.(type) {
			case verif.FailPanic:
				out.K, out.Msg = "fail", p.Msg
			case verif.PrunePanic:
				out.K = "pruned"
				if verif.BadModel {
					out.Msg = "model outside declared range"
				}
			default:
				out.K, out.Msg = "panic", fmt.Sprintf("%v\n%s", r, debug.Stack())
			}
		}
	}()
	hz.Run(ctx, it)
	out.K = "ok"
	return
}

func setup(it *hz.Item) (ctx any, err error) {
	defer func() {
		if r := recover(); r != nil {
			err = fmt.Errorf("setup panic: %v", r)
		}
	}()
	return hz.Setup(it), nil
}

func main() {
	if v := os.Getenv("VERIF_PAR_LOOPS"); v != "" {
		n := 0
		for _, ch := range v {
			if ch >= '0' && ch <= '9' {
				n = n*10 + int(ch-'0')
			}
		}
		if n > 0 {
			verif.ParLoops = n
		}
	}
	in := bufio.NewReaderSize(os.Stdin, 1<<24)
	out := bufio.NewWriter(os.Stdout)
	defer out.Flush()
	for {
		line, err := in.ReadBytes('\n')
		if len(line) > 1 {
			var req reqIn
			var resp respOut
			if jerr := json.Unmarshal(line, &req); jerr != nil {
				resp.Error = "bad request: " + jerr.Error()
			} else {
				resp.ID = req.ID
				var it hz.Item
				if jerr := json.Unmarshal(req.Item, &it); jerr != nil {
					resp.Error = "bad item: " + jerr.Error()
				} else {
					// A fresh context per case: every symbolic path starts from the state right after Setup (the
					// executor undoes the writes of the previous path), so a replay must not inherit the pooled
					// search states, DFA caches or mode flags warmed up by the case before it. (A first-call-only
					// defect was seen symbolically but "unconfirmed" natively while one context served all cases.)
					for _, c := range req.Cases {
						ctx, serr := setup(&it)
						if serr != nil {
							resp.Error = serr.Error()
							break
						}
						resp.Results = append(resp.Results, runCase(ctx, &it, c.M))
					}
				}
			}
			b, _ := json.Marshal(resp)
			out.Write(b)
			out.WriteByte('\n')
			out.Flush()
		}
		if err != nil {
			break
		}
	}
}
