// strategy prints the meta-engine strategy selected for each pattern (one JSON string per line on stdin).
package main

import (
	"bufio"
	"encoding/json"
	"fmt"
	"os"

	"github.com/coregx/coregex/meta"
)

func main() {
	sc := bufio.NewScanner(os.Stdin)
	sc.Buffer(make([]byte, 1<<20), 1<<20)
	for sc.Scan() {
		var p string
		if err := json.Unmarshal(sc.Bytes(), &p); err != nil {
			fmt.Println("?")
			continue
		}
		e, err := meta.Compile(p)
		if err != nil {
			fmt.Println("ERR")
			continue
		}
		fmt.Println(e.Strategy().String())
	}
}
