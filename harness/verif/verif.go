// Package verif is the harness API. Under the symbolic executor (gosymx) the
// functions marked "intercepted" are replaced by intrinsics; natively they read
// a concrete model, so the same harness replays a solver assignment against
// the real build.
package verif

import (
	"strconv"
	"strings"
	"unsafe"
)

var (
	model    map[string]uint64
	Reached  []string
	Snaps    map[string]string
	BadModel bool // a declared range did not hold for the model value
)

// FailPanic / PrunePanic end a native run.
type FailPanic struct{ Msg string }
type PrunePanic struct{}

func SetModel(m map[string]uint64) {
	model = m
	Reached = nil
	Snaps = map[string]string{}
	BadModel = false
}

// Bytes returns n fresh symbolic bytes named name0..name(n-1). (intercepted)
func Bytes(name string, n int) []byte {
	b := make([]byte, n)
	for i := range b {
		b[i] = byte(model[name+strconv.Itoa(i)])
	}
	return b
}

// Byte returns one symbolic byte. (intercepted)
func Byte(name string) byte { return byte(model[name]) }

// Bool returns a symbolic boolean. (intercepted)
func Bool(name string) bool { return model[name] != 0 }

// Int returns a symbolic int in [lo,hi]. (intercepted)
func Int(name string, lo, hi int) int {
	v := int(int64(model[name]))
	if v < lo || v > hi {
		BadModel = true
		panic(PrunePanic{})
	}
	return v
}

func Uint16(name string, lo, hi uint16) uint16 {
	v := uint16(model[name])
	if v < lo || v > hi {
		BadModel = true
		panic(PrunePanic{})
	}
	return v
}

func Uint32(name string, lo, hi uint32) uint32 {
	v := uint32(model[name])
	if v < lo || v > hi {
		BadModel = true
		panic(PrunePanic{})
	}
	return v
}

func Uint64(name string, lo, hi uint64) uint64 {
	v := model[name]
	if v < lo || v > hi {
		BadModel = true
		panic(PrunePanic{})
	}
	return v
}

func Rune(name string, lo, hi rune) rune {
	v := rune(int32(model[name]))
	if v < lo || v > hi {
		BadModel = true
		panic(PrunePanic{})
	}
	return v
}

// Choose returns a nondeterministic concrete value in [0,n). (intercepted)
func Choose(name string, n int) int {
	v := int(int64(model[name]))
	if v < 0 || v >= n {
		BadModel = true
		panic(PrunePanic{})
	}
	return v
}

// Concrete forces a symbolic int to a concrete value by a value split. (intercepted)
func Concrete(x int) int { return x }

// Fail ends the path as a violation. (intercepted)
func Fail(msg string) { panic(FailPanic{msg}) }

// Prune ends the path as outside the assumptions. (intercepted)
func Prune() { panic(PrunePanic{}) }

// Assume restricts the explored inputs (interpreted from source: a branch).
func Assume(c bool) {
	if !c {
		Prune()
	}
}

// Assert is the property (interpreted from source: a branch).
func Assert(c bool, msg string) {
	if !c {
		Fail(msg)
	}
}

// Reach records a reachability witness. (intercepted)
func Reach(tag string) { Reached = append(Reached, tag) }

// Symbolic reports whether the harness runs under the symbolic executor. (intercepted)
func Symbolic() bool { return false }

// Work returns the executor's work counter (0 natively). (intercepted)
func Work() int64 { return 0 }

func SnapInts(label string, v []int) {
	if v == nil {
		Snaps[label] = "nil"
		return
	}
	parts := make([]string, len(v))
	for i, x := range v {
		parts[i] = strconv.Itoa(x)
	}
	Snaps[label] = "[" + strings.Join(parts, " ") + "]"
}

func SnapBytes(label string, v []byte) {
	if v == nil {
		Snaps[label] = "nil"
		return
	}
	parts := make([]string, len(v))
	for i, x := range v {
		parts[i] = strconv.Itoa(int(x))
	}
	Snaps[label] = "[" + strings.Join(parts, " ") + "]"
}

func SnapBool(label string, v bool)  { Snaps[label] = strconv.FormatBool(v) }
func SnapInt(label string, v int)    { Snaps[label] = strconv.Itoa(v) }
func SnapStr(label string, v string) { Snaps[label] = strconv.Quote(v) }

// SameCell reports whether two byte slices start at the same memory cell. (intercepted)
func SameCell(a, b []byte) bool {
	return unsafe.SliceData(a) == unsafe.SliceData(b)
}

// HeapSize returns the number of memory cells reachable from v in the symbolic
// executor's heap model (slice capacities included). Natively it returns 0, so
// it may only be used in relations that also hold for the constant 0. (intercepted)
func HeapSize(v any) int { return 0 }

// ParLoops is the number of times Par repeats the pair of calls natively (set by
// the replay driver for race-detector runs).
var ParLoops = 1

// Par runs f and g as two concurrent calls. Under the symbolic executor they are
// two logical threads whose interleavings at synchronisation operations are
// explored exhaustively, with a happens-before monitor over plain memory
// accesses; natively they run in two goroutines. (intercepted)
func Par(f, g func()) {
	for i := 0; i < ParLoops; i++ {
		done := make(chan struct{})
		go func() { f(); close(done) }()
		g()
		<-done
	}
}
