package hz

import (
	"verifh/verif"
)

func init() {
	runs["C03"] = func(c any, it *Item) { runC03(c.(*reCtx), it) }
	runs["C04"] = func(c any, it *Item) { runC04(c.(*reCtx), it) }
	runs["C10"] = func(c any, it *Item) { runC10(c.(*reCtx), it) }
	runs["C11"] = func(c any, it *Item) { runC11(c.(*reCtx), it) }
}

func flatten(a [][]int) []int {
	if a == nil {
		return nil
	}
	out := make([]int, 0, len(a)*2)
	for _, m := range a {
		out = append(out, -7) // element separator
		out = append(out, m...)
	}
	return out
}

func flatten2(a [][2]int) []int {
	if a == nil {
		return nil
	}
	out := make([]int, 0, len(a)*3)
	for _, m := range a {
		out = append(out, -7, m[0], m[1])
	}
	return out
}

// spansOfBytes converts sub-slices of h (or nil entries) back to offsets by
// content-independent means is not possible natively, so byte results are
// compared by content and nil-ness.
func flattenBytes(a [][]byte) []int {
	if a == nil {
		return nil
	}
	out := []int{}
	for _, m := range a {
		if m == nil {
			out = append(out, -9)
			continue
		}
		out = append(out, -7)
		for _, b := range m {
			out = append(out, int(b))
		}
	}
	return out
}

func flattenStrings(a []string) []int {
	if a == nil {
		return nil
	}
	out := []int{}
	for _, m := range a {
		out = append(out, -7)
		for i := 0; i < len(m); i++ {
			out = append(out, int(m[i]))
		}
	}
	return out
}

// C03: capture positions == stdlib.
func runC03(c *reCtx, it *Item) {
	h := haystack(it, &c.set)
	want := c.std.FindSubmatchIndex(h)
	var got []int
	switch it.API {
	case "FindSubmatchIndex":
		got = c.re.FindSubmatchIndex(h)
	case "FindStringSubmatchIndex":
		got = c.re.FindStringSubmatchIndex(string(h))
	case "FindSubmatch":
		g := c.re.FindSubmatch(h)
		w := c.std.FindSubmatch(h)
		verif.SnapInts("gotb", flattenBytes(g))
		verif.SnapInts("wantb", flattenBytes(w))
		verif.Assert(eqInts(flattenBytes(g), flattenBytes(w)), "C03 FindSubmatch differs from regexp")
		if g != nil {
			verif.Assert(len(g) == c.re.NumSubexp()+1, "C03 FindSubmatch reports wrong number of groups")
		}
		got = want
	case "FindStringSubmatch":
		g := c.re.FindStringSubmatch(string(h))
		w := c.std.FindStringSubmatch(string(h))
		verif.SnapInts("gots", flattenStrings(g))
		verif.Assert(eqInts(flattenStrings(g), flattenStrings(w)), "C03 FindStringSubmatch differs from regexp")
		got = want
	default:
		panic("C03: unknown API " + it.API)
	}
	verif.SnapInts("got", got)
	verif.SnapInts("want", want)
	reachBool(want != nil)
	if want != nil {
		for g := 1; 2*g < len(want); g++ {
			if want[2*g] >= 0 {
				verif.Reach("group-in")
			} else {
				verif.Reach("group-out")
			}
		}
	}
	if got != nil {
		verif.Assert(len(got) == 2*(c.re.NumSubexp()+1), "C03 wrong number of reported groups")
	}
	verif.Assert(eqInts(got, want), "C03 "+it.API+" differs from regexp.FindSubmatchIndex")
}

// C04: enumeration == stdlib FindAll sequence.
func runC04(c *reCtx, it *Item) {
	h := haystack(it, &c.set)
	n := it.N
	if it.N == 99 {
		n = verif.Int("n", -1, 3)
	}
	runFindAll(c, it, h, n, "C04")
}

func runFindAll(c *reCtx, it *Item, h []byte, n int, tag string) {
	var got, want []int
	switch it.API {
	case "FindAllIndex":
		got = flatten(c.re.FindAllIndex(h, n))
		want = flatten(c.std.FindAllIndex(h, n))
	case "FindAllStringIndex":
		got = flatten(c.re.FindAllStringIndex(string(h), n))
		want = flatten(c.std.FindAllIndex(h, n))
	case "FindAll":
		got = flattenBytes(c.re.FindAll(h, n))
		want = flattenBytes(c.std.FindAll(h, n))
	case "FindAllString":
		got = flattenStrings(c.re.FindAllString(string(h), n))
		want = flattenStrings(c.std.FindAllString(string(h), n))
	case "FindAllSubmatchIndex":
		got = flatten(c.re.FindAllSubmatchIndex(h, n))
		want = flatten(c.std.FindAllSubmatchIndex(h, n))
	case "FindAllStringSubmatchIndex":
		got = flatten(c.re.FindAllStringSubmatchIndex(string(h), n))
		want = flatten(c.std.FindAllSubmatchIndex(h, n))
	case "FindAllSubmatch":
		g := c.re.FindAllSubmatch(h, n)
		w := c.std.FindAllSubmatch(h, n)
		if g != nil {
			got = []int{}
			for _, m := range g {
				got = append(got, -8)
				got = append(got, flattenBytes(m)...)
			}
		}
		if w != nil {
			want = []int{}
			for _, m := range w {
				want = append(want, -8)
				want = append(want, flattenBytes(m)...)
			}
		}
	case "FindAllStringSubmatch":
		g := c.re.FindAllStringSubmatch(string(h), n)
		w := c.std.FindAllStringSubmatch(string(h), n)
		if g != nil {
			got = []int{}
			for _, m := range g {
				got = append(got, -8)
				got = append(got, flattenStrings(m)...)
			}
		}
		if w != nil {
			want = []int{}
			for _, m := range w {
				want = append(want, -8)
				want = append(want, flattenStrings(m)...)
			}
		}
	case "Count":
		got = []int{c.re.Count(h, n)}
		want = []int{len(c.std.FindAllIndex(h, n))}
	case "CountString":
		got = []int{c.re.CountString(string(h), n)}
		want = []int{len(c.std.FindAllIndex(h, n))}
	case "AllIndex":
		// iterator: collect everything (n ignored: iterators have no limit)
		got = []int{}
		for m := range c.re.AllIndex(h) {
			got = append(got, -7, m[0], m[1])
		}
		want = flatten(c.std.FindAllIndex(h, -1))
		if want == nil {
			want = []int{}
		}
	case "AllIndexBreak":
		// early break after k items must yield the first k
		k := it.N
		got = []int{}
		cnt := 0
		for m := range c.re.AllIndex(h) {
			if cnt >= k {
				break
			}
			got = append(got, -7, m[0], m[1])
			cnt++
		}
		want = flatten(c.std.FindAllIndex(h, k))
		if want == nil || k == 0 {
			want = []int{}
		}
	case "AllStringIndex":
		got = []int{}
		for m := range c.re.AllStringIndex(string(h)) {
			got = append(got, -7, m[0], m[1])
		}
		want = flatten(c.std.FindAllIndex(h, -1))
		if want == nil {
			want = []int{}
		}
	case "All":
		gb := [][]byte{}
		for m := range c.re.All(h) {
			gb = append(gb, m)
		}
		got = flattenBytes(gb)
		want = flattenBytes(c.std.FindAll(h, -1))
		if want == nil {
			want = []int{}
		}
	case "AllString":
		gs := []string{}
		for m := range c.re.AllString(string(h)) {
			gs = append(gs, m)
		}
		got = flattenStrings(gs)
		want = flattenStrings(c.std.FindAllString(string(h), -1))
		if want == nil {
			want = []int{}
		}
	case "AppendAllIndex", "AppendAllStringIndex":
		// dst holds d sentinel pairs; result must be dst followed by the matches
		d := 0
		if len(it.Extra) > 0 {
			d = int(it.Extra[0] - '0')
		}
		dst := make([][2]int, d, d+4)
		for i := range dst {
			dst[i] = [2]int{-100 - i, -200 - i}
		}
		var res [][2]int
		if it.API == "AppendAllIndex" {
			res = c.re.AppendAllIndex(dst, h, n)
		} else {
			res = c.re.AppendAllStringIndex(dst, string(h), n)
		}
		got = flatten2(res)
		if got == nil {
			got = []int{}
		}
		want = []int{}
		for i := 0; i < d; i++ {
			want = append(want, -7, -100-i, -200-i)
		}
		want = append(want, flatten(c.std.FindAllIndex(h, n))...)
	default:
		panic(tag + ": unknown API " + it.API)
	}
	verif.SnapInts("got", got)
	verif.SnapInts("want", want)
	if len(want) > 3 {
		verif.Reach("multi")
	}
	reachBool(len(want) > 0)
	verif.Assert(eqInts(got, want), tag+" "+it.API+" differs from regexp FindAll sequence")
}

// C10: leftmost-longest / POSIX; the mode is per value.
func runC10(c *reCtx, it *Item) {
	h := haystack(it, &c.set)
	switch it.API {
	case "Match":
		got, want := c.re.Match(h), c.std.Match(h)
		verif.SnapBool("got", got)
		verif.SnapBool("want", want)
		reachBool(want)
		verif.Assert(got == want, "C10 Match differs from regexp in longest mode")
	case "FindIndex":
		got, want := c.re.FindIndex(h), c.std.FindIndex(h)
		verif.SnapInts("got", got)
		verif.SnapInts("want", want)
		reachBool(want != nil)
		verif.Assert(eqInts(got, want), "C10 FindIndex differs from regexp in longest mode")
	case "FindSubmatchIndex":
		got, want := c.re.FindSubmatchIndex(h), c.std.FindSubmatchIndex(h)
		verif.SnapInts("got", got)
		verif.SnapInts("want", want)
		reachBool(want != nil)
		verif.Assert(eqInts(got, want), "C10 FindSubmatchIndex differs from regexp in longest mode")
	case "FindAllIndex":
		got, want := flatten(c.re.FindAllIndex(h, -1)), flatten(c.std.FindAllIndex(h, -1))
		verif.SnapInts("got", got)
		verif.SnapInts("want", want)
		reachBool(want != nil)
		verif.Assert(eqInts(got, want), "C10 FindAllIndex differs from regexp in longest mode")
	case "CopyIsolation":
		// Longest() on a copy must leave the original in leftmost-first mode.
		// (Setup compiled c.re/c.std in Mode 0; isolation values are built here.)
		cp := c.re.Copy()
		cp.Longest()
		scp := c.std.Copy()
		scp.Longest()
		g1, w1 := c.re.FindIndex(h), c.std.FindIndex(h)
		g2, w2 := cp.FindIndex(h), scp.FindIndex(h)
		verif.SnapInts("got", g1)
		verif.SnapInts("want", w1)
		verif.SnapInts("gotcopy", g2)
		verif.SnapInts("wantcopy", w2)
		reachBool(w1 != nil)
		if !eqInts(w1, w2) {
			verif.Reach("modes-differ")
		}
		verif.Assert(eqInts(g1, w1), "C10 original changed by Longest() on a Copy")
		verif.Assert(eqInts(g2, w2), "C10 Copy().Longest() differs from regexp")
	default:
		panic("C10: unknown API " + it.API)
	}
}

// C11: all views of one Regex agree (no oracle).
func runC11(c *reCtx, it *Item) {
	h := haystack(it, &c.set)
	re := c.re
	loc := re.FindIndex(h)
	verif.SnapInts("loc", loc)
	reachBool(loc != nil)
	switch it.API {
	case "basic":
		m := re.Match(h)
		verif.SnapBool("match", m)
		verif.Assert(m == (loc != nil), "C11 Match disagrees with FindIndex")
		verif.Assert(re.MatchString(string(h)) == m, "C11 MatchString disagrees with Match")
		f := re.Find(h)
		if loc == nil {
			verif.Assert(f == nil, "C11 Find non-nil although FindIndex is nil")
		} else {
			verif.Assert(f != nil && eqBytes(f, h[loc[0]:loc[1]]), "C11 Find is not the haystack sliced at FindIndex")
		}
		fs := re.FindString(string(h))
		if loc == nil {
			verif.Assert(fs == "", "C11 FindString non-empty although FindIndex is nil")
		} else {
			verif.Assert(eqBytes([]byte(fs), h[loc[0]:loc[1]]), "C11 FindString is not the haystack sliced at FindIndex")
		}
		verif.Assert(eqInts(re.FindStringIndex(string(h)), loc), "C11 FindStringIndex disagrees with FindIndex")
		sm := re.FindSubmatchIndex(h)
		if loc == nil {
			verif.Assert(sm == nil, "C11 FindSubmatchIndex non-nil although FindIndex is nil")
		} else {
			verif.Assert(sm != nil && sm[0] == loc[0] && sm[1] == loc[1], "C11 group 0 of FindSubmatchIndex disagrees with FindIndex")
		}
	case "all":
		all := re.FindAllIndex(h, -1)
		verif.SnapInts("all", flatten(all))
		if loc == nil {
			verif.Assert(len(all) == 0, "C11 FindAll non-empty although FindIndex is nil")
		} else {
			verif.Assert(len(all) > 0 && eqInts(all[0], loc), "C11 first FindAll element is not FindIndex")
		}
		for k := 0; k <= 2; k++ {
			pk := re.FindAllIndex(h, k)
			wantLen := len(all)
			if k < wantLen {
				wantLen = k
			}
			verif.Assert(len(pk) == wantLen, "C11 FindAll(n) is not a length-n prefix of FindAll(-1)")
			for i := range pk {
				verif.Assert(eqInts(pk[i], all[i]), "C11 FindAll(n) element differs from FindAll(-1)")
			}
		}
		verif.Assert(re.Count(h, -1) == len(all), "C11 Count disagrees with FindAllIndex")
		ap := re.AppendAllIndex(nil, h, -1)
		verif.Assert(len(ap) == len(all), "C11 AppendAllIndex disagrees with FindAllIndex")
		for i := range ap {
			verif.Assert(i < len(all) && ap[i][0] == all[i][0] && ap[i][1] == all[i][1], "C11 AppendAllIndex element differs")
		}
		i := 0
		for m := range re.AllIndex(h) {
			verif.Assert(i < len(all) && m[0] == all[i][0] && m[1] == all[i][1], "C11 AllIndex element differs from FindAllIndex")
			i++
		}
		verif.Assert(i == len(all), "C11 AllIndex yields a different number of matches")
		asm := re.FindAllSubmatchIndex(h, -1)
		verif.Assert(len(asm) == len(all), "C11 FindAllSubmatchIndex count differs from FindAllIndex")
		for j := range asm {
			verif.Assert(j < len(all) && asm[j][0] == all[j][0] && asm[j][1] == all[j][1], "C11 group 0 of FindAllSubmatchIndex differs from FindAllIndex")
		}
	default:
		panic("C11: unknown API " + it.API)
	}
}
