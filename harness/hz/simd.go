package hz

import (
	"github.com/coregx/coregex/simd"

	"verifh/verif"
)

// C18 (Go level): the byte-search primitives equal their scalar definitions.
// With the CPU feature flags false (interpreter) the exported functions take
// the pure-Go SWAR implementations; the assembly kernels are checked by the
// separate assembly-level executor.

func init() {
	setups["C18"] = func(it *Item) any { return &reCtx{} }
	runs["C18"] = func(c any, it *Item) { runC18(it) }
}

func naiveIndex(h []byte, pred func(byte) bool) int {
	for i, b := range h {
		if pred(b) {
			return i
		}
	}
	return -1
}

func isWordB(b byte) bool {
	return b >= 'a' && b <= 'z' || b >= 'A' && b <= 'Z' || b >= '0' && b <= '9' || b == '_'
}

func runC18(it *Item) {
	var set [256]bool
	setSet(&set, it.Alpha)
	h := haystack(it, &set)
	var got, want int
	switch it.API {
	case "Memchr":
		n := verif.Byte("n0")
		got = simd.Memchr(h, n)
		want = naiveIndex(h, func(b byte) bool { return b == n })
	case "Memchr2":
		n0, n1 := verif.Byte("n0"), verif.Byte("n1")
		got = simd.Memchr2(h, n0, n1)
		want = naiveIndex(h, func(b byte) bool { return b == n0 || b == n1 })
	case "Memchr3":
		n0, n1, n2 := verif.Byte("n0"), verif.Byte("n1"), verif.Byte("n2")
		got = simd.Memchr3(h, n0, n1, n2)
		want = naiveIndex(h, func(b byte) bool { return b == n0 || b == n1 || b == n2 })
	case "MemchrPair":
		n0, n1 := verif.Byte("n0"), verif.Byte("n1")
		off := it.N
		got = simd.MemchrPair(h, n0, n1, off)
		want = -1
		for i := 0; i+off < len(h); i++ {
			if h[i] == n0 && h[i+off] == n1 {
				want = i
				break
			}
		}
	case "MemchrDigit":
		got = simd.MemchrDigit(h)
		want = naiveIndex(h, func(b byte) bool { return b >= '0' && b <= '9' })
	case "MemchrDigitAt":
		at := it.N
		got = simd.MemchrDigitAt(h, at)
		want = -1
		for i := at; i < len(h); i++ {
			if h[i] >= '0' && h[i] <= '9' {
				want = i
				break
			}
		}
	case "MemchrWord":
		got = simd.MemchrWord(h)
		want = naiveIndex(h, isWordB)
	case "MemchrNotWord":
		got = simd.MemchrNotWord(h)
		want = naiveIndex(h, func(b byte) bool { return !isWordB(b) })
	case "MemchrInTable", "MemchrNotInTable":
		// table membership: symbolic for 4 byte values, false elsewhere
		var tbl [256]bool
		tbl['a'] = verif.Bool("ta")
		tbl['b'] = verif.Bool("tb")
		tbl[0] = verif.Bool("t0")
		tbl[0xff] = verif.Bool("tf")
		if it.API == "MemchrInTable" {
			got = simd.MemchrInTable(h, &tbl)
			want = naiveIndex(h, func(b byte) bool { return tbl[b] })
		} else {
			got = simd.MemchrNotInTable(h, &tbl)
			want = naiveIndex(h, func(b byte) bool { return !tbl[b] })
		}
	case "IsASCII":
		g := simd.IsASCII(h)
		w := naiveIndex(h, func(b byte) bool { return b >= 0x80 }) < 0
		got, want = 0, 0
		if g {
			got = 1
		}
		if w {
			want = 1
		}
	case "CountNonASCII":
		got = simd.CountNonASCII(h)
		want = 0
		for _, b := range h {
			if b >= 0x80 {
				want++
			}
		}
	case "FirstNonASCII":
		got = simd.FirstNonASCII(h)
		want = naiveIndex(h, func(b byte) bool { return b >= 0x80 })
	case "Memmem":
		nd := verif.Bytes("n", it.N)
		got = simd.Memmem(h, nd)
		want = -1
		for i := 0; i+len(nd) <= len(h); i++ {
			if hasPrefixAt(h, i, nd) {
				want = i
				break
			}
		}
	default:
		panic("C18: unknown API " + it.API)
	}
	verif.SnapInt("got", got)
	verif.SnapInt("want", want)
	reachBool(want >= 0)
	verif.Assert(got == want, "C18 "+it.API+" differs from its scalar definition")
}
