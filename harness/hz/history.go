package hz

import (
	"regexp"

	"github.com/coregx/coregex"
	"github.com/coregx/coregex/dfa/lazy"
	"github.com/coregx/coregex/nfa"

	"verifh/verif"
)

type histCtx struct {
	re    *coregex.Regex
	fresh func() *coregex.Regex
	std   *regexp.Regexp
	set   [256]bool
	// engine-level
	n   *nfa.NFA
	bt  *nfa.BoundedBacktracker
	dfa *lazy.DFA
	cfg lazy.Config
}

func init() {
	setups["C13"] = func(it *Item) any { return setupHist(it) }
	runs["C13"] = func(c any, it *Item) { runC13(c.(*histCtx), it) }
	setups["C20"] = func(it *Item) any { return setupHist(it) }
	runs["C20"] = func(c any, it *Item) { runC20(c.(*histCtx), it) }
}

func setupHist(it *Item) *histCtx {
	c := &histCtx{}
	setSet(&c.set, it.Alpha)
	p := it.Pattern
	c.re = coregex.MustCompile(p)
	c.fresh = func() *coregex.Regex { return coregex.MustCompile(p) }
	c.std = regexp.MustCompile(p)
	n, err := nfa.NewCompiler(nfa.DefaultCompilerConfig()).Compile(p)
	if err != nil {
		panic(err)
	}
	c.n = n
	c.bt = nfa.NewBoundedBacktracker(n)
	cfg := lazy.DefaultConfig()
	kv := parseKV(it.Extra)
	if v, ok := kv["cap"]; ok {
		cfg.CacheCapacityBytes = v
	}
	if v, ok := kv["clears"]; ok {
		cfg.MaxCacheClears = v
	}
	c.cfg = cfg
	if d, err := lazy.CompileWithConfig(n, cfg); err == nil {
		c.dfa = d
	}
	return c
}

// callAPI runs one API (chosen by k) and returns a comparable result.
func callAPI(re *coregex.Regex, k int, h []byte) []int {
	switch k {
	case 0:
		if re.Match(h) {
			return []int{1}
		}
		return []int{0}
	case 1:
		return re.FindIndex(h)
	case 2:
		return re.FindSubmatchIndex(h)
	case 3:
		return flatten(re.FindAllIndex(h, -1))
	case 4:
		return []int{re.Count(h, -1)}
	default:
		r := re.ReplaceAll(h, []byte("x"))
		out := []int{}
		for _, b := range r {
			out = append(out, int(b))
		}
		return out
	}
}

// C13: a call on an aged value returns what it returns on a fresh value.
func runC13(c *histCtx, it *Item) {
	switch it.API {
	case "history":
		// N earlier calls (API chosen nondeterministically, haystack symbolic), then the call under test.
		// A fresh value per path keeps paths independent of each other.
		aged := c.fresh()
		for i := 0; i < it.N; i++ {
			name := "p" + string(rune('0'+i))
			hp := verif.Bytes(name, it.L)
			for _, b := range hp {
				verif.Assume(c.set[b])
			}
			k := verif.Choose("k"+string(rune('0'+i)), 4)
			_ = callAPI(aged, k, hp)
		}
		h := haystack(it, &c.set)
		kk := it.Mode
		got := callAPI(aged, kk, h)
		want := callAPI(c.fresh(), kk, h)
		again := callAPI(aged, kk, h)
		verif.SnapInts("got", got)
		verif.SnapInts("want", want)
		reachBool(c.std.Match(h))
		verif.Assert(eqInts(got, want), "C13 result on an aged Regex differs from a freshly compiled one")
		verif.Assert(eqInts(again, got), "C13 repeating the call returns a different result")
	case "backtracker-state":
		// inductive step: arbitrary recycled BacktrackerState (generation and visited
		// table contents symbolic) vs a zero state
		h := haystack(it, &c.set)
		if !c.bt.CanHandle(len(h)) {
			verif.Reach("declined")
			return
		}
		// Inductive step over the recycled state. Invariant I: every cell of the
		// backing array (up to its capacity) is <= Generation. (1) Under I the search
		// equals the search on a zero state; (2) the search re-establishes I, also
		// when the generation counter wraps during a search that uses only a prefix
		// of the table.
		st := nfa.NewBacktrackerState()
		nv := c.bt.NumStates()*(len(h)+1) + it.N
		st.Visited = make([]uint16, nv)
		gen := verif.Uint16("gen", 0, 65535)
		st.Generation = gen
		for i := 0; i < nv; i++ {
			v := verif.Uint16("v"+itoa(i), 0, 65535)
			verif.Assume(v <= gen)
			st.Visited[i] = v
		}
		gs, ge, gok := c.bt.SearchAtWithState(h, 0, st)
		ws, we, wok := c.bt.SearchAtWithState(h, 0, nfa.NewBacktrackerState())
		verif.SnapInts("got", span(gs, ge, gok))
		verif.SnapInts("want", span(ws, we, wok))
		reachBool(wok)
		verif.Assert(eqInts(span(gs, ge, gok), span(ws, we, wok)), "C13 BoundedBacktracker result depends on the recycled state's visited table")
		full := st.Visited[:cap(st.Visited)]
		for i := range full {
			verif.Assert(full[i] <= st.Generation, "C13 a search leaves a visited mark above the generation counter (stale marks would collide after the counter restarts)")
		}
		if st.Generation < gen {
			verif.Reach("wrapped")
		}
	case "dfa-cache":
		// one cache reused across N+1 searches with tiny capacities (clears, give-up) vs a new cache
		if c.dfa == nil {
			verif.Reach("declined")
			return
		}
		cache := c.dfa.NewCache()
		for i := 0; i < it.N; i++ {
			hp := verif.Bytes("p"+string(rune('0'+i)), it.L)
			for _, b := range hp {
				verif.Assume(c.set[b])
			}
			_ = c.dfa.FindAt(cache, hp, 0)
		}
		h := haystack(it, &c.set)
		got := c.dfa.FindAt(cache, h, 0)
		want := c.dfa.FindAt(c.dfa.NewCache(), h, 0)
		verif.SnapInt("gote", got)
		verif.SnapInt("wante", want)
		reachBool(want >= 0)
		if cache.ClearCount() > 0 {
			verif.Reach("cache-cleared")
		}
		verif.Assert(got == want, "C13 lazy DFA result depends on what the cache was used for before")
	default:
		panic("C13: unknown API " + it.API)
	}
}

// C20: bounded memory.
func runC20(c *histCtx, it *Item) {
	switch it.API {
	case "dfa-capacity":
		if c.dfa == nil {
			verif.Reach("declined")
			return
		}
		cache := c.dfa.NewCache()
		maxUse := 0
		for i := 0; i <= it.N; i++ {
			hp := verif.Bytes("p"+string(rune('0'+i)), it.L)
			for _, b := range hp {
				verif.Assume(c.set[b])
			}
			_ = c.dfa.FindAt(cache, hp, 0)
			if u := cache.MemoryUsage(); u > maxUse {
				maxUse = u
			}
			size, capacity, _, _, _ := c.dfa.CacheStats(cache)
			verif.Assert(uint32(size) <= capacity+1, "C20 lazy DFA cache holds more states than MaxStates + 1")
		}
		verif.SnapInt("maxuse", maxUse)
		verif.Reach("match")
		// capacity + one state's worst footprint (stride transitions of 4 bytes + NFA set + header)
		oneState := c.dfa.AlphabetLen()*4 + c.n.States()*4 + 256
		verif.Assert(maxUse <= c.cfg.CacheCapacityBytes+oneState, "C20 lazy DFA cache memory exceeds the configured capacity by more than one state")
	case "bt-visited":
		h := haystack(it, &c.set)
		if !c.bt.CanHandle(len(h)) {
			verif.Reach("declined")
			return
		}
		st := nfa.NewBacktrackerState()
		for i := 0; i <= it.N; i++ {
			_, _, _ = c.bt.SearchAtWithState(h, 0, st)
			verif.Assert(len(st.Visited) <= c.bt.MaxVisitedSize(), "C20 backtracker visited table exceeds its cap")
			verif.Assert(len(st.Visited) <= c.bt.NumStates()*(len(h)+1), "C20 backtracker visited table larger than states x (len+1)")
		}
		verif.Reach("match")
	case "bt-visited-at":
		// search resumed at an offset: the table is sized by the searched span and never exceeds the cap
		h := haystack(it, &c.set)
		at := it.N
		small := nfa.NewBoundedBacktrackerSmall(c.n)
		if at > len(h) || !small.CanHandle(len(h)-at) {
			verif.Reach("declined")
			return
		}
		st := nfa.NewBacktrackerState()
		_, _, _ = small.SearchAtWithState(h, at, st)
		verif.SnapInt("visited", len(st.Visited))
		verif.SnapInt("cap", small.MaxVisitedSize())
		verif.Reach("match")
		verif.Assert(len(st.Visited) <= small.MaxVisitedSize(), "C20 backtracker visited table exceeds its cap after a search resumed at an offset")
		verif.Assert(cap(st.Visited) <= small.MaxVisitedSize(), "C20 backtracker visited table capacity exceeds its cap")
	case "repeat-growth":
		// the same two searches repeated do not change the pooled state's table sizes
		aged := c.fresh()
		h1 := haystack(it, &c.set)
		h2 := verif.Bytes("q", it.L)
		for _, b := range h2 {
			verif.Assume(c.set[b])
		}
		round := func() {
			_ = aged.FindIndex(h1)
			_ = aged.Match(h2)
			_ = aged.Count(h1, -1)
			_ = aged.FindSubmatchIndex(h2)
		}
		round()
		s1 := verif.HeapSize(aged)
		round()
		s2 := verif.HeapSize(aged)
		round()
		s3 := verif.HeapSize(aged)
		verif.Reach("match")
		if verif.Symbolic() {
			verif.Reach("sized")
		}
		verif.Assert(s2 == s1 && s3 == s2, "C20 the memory reachable from the Regex grows when the same searches are repeated")
	default:
		panic("C20: unknown API " + it.API)
	}
}

func itoa(n int) string {
	if n == 0 {
		return "0"
	}
	var b []byte
	for n > 0 {
		b = append([]byte{byte('0' + n%10)}, b...)
		n /= 10
	}
	return string(b)
}

func init() {
	setups["C05"] = func(it *Item) any { return setupHist(it) }
	runs["C05"] = func(c any, it *Item) { runC05(c.(*histCtx), it) }
}

// C05: the work of one search (executed basic blocks of library code, counted
// by the executor) is recorded per path; the orchestrator compares the maxima
// over all inputs of length L and 2L.
func runC05(c *histCtx, it *Item) {
	h := haystack(it, &c.set)
	if it.N > 0 {
		// long run: N copies of one byte (concrete) followed by the symbolic tail
		run := make([]byte, it.N, it.N+len(h))
		for i := range run {
			run[i] = it.Extra[0]
		}
		h = append(run, h...)
	}
	w0 := verif.Work()
	switch it.API {
	case "Match":
		_ = c.re.Match(h)
	case "FindIndex":
		_ = c.re.FindIndex(h)
	case "FindSubmatchIndex":
		_ = c.re.FindSubmatchIndex(h)
	case "pike":
		_, _, _ = nfa.NewPikeVM(c.n).Search(h)
	default:
		panic("C05: unknown API " + it.API)
	}
	w := verif.Work() - w0
	verif.SnapInt("len", len(h))
	_ = w
	verif.Reach("match")
}

func init() {
	setups["C06"] = func(it *Item) any { return setupHist(it) }
	runs["C06"] = func(c any, it *Item) { runC06(c.(*histCtx), it) }
}

// C06: two concurrent calls on one shared Regex are race-free and each returns
// its sequential result. Mode = API of the first call, N = API of the second.
func runC06(c *histCtx, it *Item) {
	h1 := haystack(it, &c.set)
	h2 := verif.Bytes("g", it.L)
	for _, b := range h2 {
		verif.Assume(c.set[b])
	}
	want1 := callAPI(c.fresh(), it.Mode, h1)
	want2 := callAPI(c.fresh(), it.N, h2)
	re := c.re
	var got1, got2 []int
	verif.Par(func() { got1 = callAPI(re, it.Mode, h1) }, func() { got2 = callAPI(re, it.N, h2) })
	verif.SnapInts("got1", got1)
	verif.SnapInts("got2", got2)
	verif.SnapInts("want1", want1)
	verif.SnapInts("want2", want2)
	reachBool(c.std.Match(h1))
	verif.Assert(eqInts(got1, want1), "C06 first concurrent call returned a result different from its sequential result")
	verif.Assert(eqInts(got2, want2), "C06 second concurrent call returned a result different from its sequential result")
}
