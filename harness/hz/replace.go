package hz

import (
	"verifh/verif"
)

// C08: Replace / Expand / Split produce stdlib's output.

func init() {
	runs["C08"] = func(c any, it *Item) { runC08(c.(*reCtx), it) }
	setups["C08"] = func(it *Item) any { return setupRe(it) }
}

func tmplAlpha(b byte) bool {
	// template alphabet: '$', '{', '}', digits 0-2, letters a n x, '_' and one other byte
	switch b {
	case '$', '{', '}', '0', '1', '2', 'a', 'n', 'x', '_', '-':
		return true
	}
	return false
}

func runC08(c *reCtx, it *Item) {
	switch it.API {
	case "Expand", "ExpandString":
		// template: N symbolic bytes over the template alphabet; src and match are
		// concrete (Extra = src), match vector from the oracle on src.
		t := verif.Bytes("t", it.N)
		for _, b := range t {
			verif.Assume(tmplAlpha(b))
		}
		src := []byte(it.Extra)
		m := c.std.FindSubmatchIndex(src)
		if m == nil {
			verif.Prune()
		}
		dst := []byte("D")
		var got []byte
		if it.API == "Expand" {
			got = c.re.Expand(append([]byte(nil), dst...), t, src, m)
		} else {
			got = c.re.ExpandString(append([]byte(nil), dst...), string(t), string(src), m)
		}
		want := c.std.Expand(append([]byte(nil), dst...), t, src, m)
		verif.SnapBytes("got", got)
		verif.SnapBytes("want", want)
		verif.Reach("match")
		verif.Assert(eqBytes(got, want), "C08 "+it.API+" differs from regexp.Expand")
	case "ReplaceAll", "ReplaceAllString", "ReplaceAllLiteral", "ReplaceAllLiteralString", "ReplaceAllFunc", "ReplaceAllStringFunc":
		h := haystack(it, &c.set)
		repl := []byte(it.Extra)
		if it.N > 0 {
			// one symbolic byte appended to the concrete template
			t := verif.Bytes("t", it.N)
			for _, b := range t {
				verif.Assume(tmplAlpha(b))
			}
			repl = append(append([]byte(nil), repl...), t...)
		}
		var got, want []byte
		switch it.API {
		case "ReplaceAll":
			got, want = c.re.ReplaceAll(h, repl), c.std.ReplaceAll(h, repl)
		case "ReplaceAllString":
			got, want = []byte(c.re.ReplaceAllString(string(h), string(repl))), []byte(c.std.ReplaceAllString(string(h), string(repl)))
		case "ReplaceAllLiteral":
			got, want = c.re.ReplaceAllLiteral(h, repl), c.std.ReplaceAllLiteral(h, repl)
		case "ReplaceAllLiteralString":
			got, want = []byte(c.re.ReplaceAllLiteralString(string(h), string(repl))), []byte(c.std.ReplaceAllLiteralString(string(h), string(repl)))
		case "ReplaceAllFunc":
			f := func(m []byte) []byte { return append([]byte{'<'}, append(append([]byte(nil), m...), '>')...) }
			got, want = c.re.ReplaceAllFunc(h, f), c.std.ReplaceAllFunc(h, f)
		case "ReplaceAllStringFunc":
			f := func(m string) string { return "<" + m + ">" }
			got, want = []byte(c.re.ReplaceAllStringFunc(string(h), f)), []byte(c.std.ReplaceAllStringFunc(string(h), f))
		}
		verif.SnapBytes("got", got)
		verif.SnapBytes("want", want)
		reachBool(c.std.Match(h))
		verif.Assert(eqBytes(got, want) || (len(got) == 0 && len(want) == 0), "C08 "+it.API+" differs from regexp")
		if (it.API == "ReplaceAll" || it.API == "ReplaceAllLiteral" || it.API == "ReplaceAllFunc") && len(h) > 0 && len(got) > 0 {
			verif.Assert(!verif.SameCell(got, h), "C08 "+it.API+" returned the input slice instead of a fresh copy")
		}
	case "Split":
		h := haystack(it, &c.set)
		n := it.N
		if it.N == 99 {
			n = verif.Int("n", -1, 4)
		}
		got := flattenStrings(c.re.Split(string(h), n))
		want := flattenStrings(c.std.Split(string(h), n))
		verif.SnapInts("got", got)
		verif.SnapInts("want", want)
		reachBool(c.std.Match(h))
		verif.Assert(eqInts(got, want), "C08 Split differs from regexp.Split")
	default:
		panic("C08: unknown API " + it.API)
	}
}
