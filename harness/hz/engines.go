package hz

import (
	"regexp"
	"regexp/syntax"

	"github.com/coregx/coregex/dfa/lazy"
	"github.com/coregx/coregex/dfa/onepass"
	"github.com/coregx/coregex/nfa"

	"verifh/verif"
)

// C14: each engine, driven directly, agrees with the reference or declines.

type engCtx struct {
	n      *nfa.NFA
	pike   *nfa.PikeVM
	bt     *nfa.BoundedBacktracker
	dfa    *lazy.DFA
	rev    *lazy.DFA
	op     *onepass.DFA
	opErr  bool
	dfaErr bool
	std    *regexp.Regexp // leftmost-first
	stdL   *regexp.Regexp // leftmost-longest
	stdA   *regexp.Regexp // anchored at start: ^(?:p)
	stdAL  *regexp.Regexp
	stdAt  *regexp.Regexp // (?s)^.{at}.*?(p): leftmost-first match of p starting at or after byte offset at (ASCII haystacks)
	set    [256]bool
	cfg    lazy.Config
}

func init() {
	setups["C14"] = func(it *Item) any { return setupEng(it) }
	runs["C14"] = func(c any, it *Item) { runC14(c.(*engCtx), it) }
}

// parseKV reads "k=v,k=v" integer settings from Extra.
func parseKV(s string) map[string]int {
	out := map[string]int{}
	i := 0
	for i < len(s) {
		j := i
		for j < len(s) && s[j] != '=' {
			j++
		}
		k := s[i:j]
		j++
		v, neg := 0, false
		if j < len(s) && s[j] == '-' {
			neg = true
			j++
		}
		for j < len(s) && s[j] >= '0' && s[j] <= '9' {
			v = v*10 + int(s[j]-'0')
			j++
		}
		if neg {
			v = -v
		}
		out[k] = v
		if j < len(s) && s[j] == ',' {
			j++
		}
		i = j
	}
	return out
}

func setupEng(it *Item) *engCtx {
	c := &engCtx{}
	n, err := nfa.NewCompiler(nfa.DefaultCompilerConfig()).Compile(it.Pattern)
	if err != nil {
		panic("nfa compile: " + err.Error())
	}
	c.n = n
	c.pike = nfa.NewPikeVM(n)
	c.bt = nfa.NewBoundedBacktracker(n)
	cfg := lazy.DefaultConfig()
	kv := parseKV(it.Extra)
	if v, ok := kv["cap"]; ok {
		cfg.CacheCapacityBytes = v
	}
	if v, ok := kv["clears"]; ok {
		cfg.MaxCacheClears = v
	}
	if v, ok := kv["det"]; ok {
		cfg.DeterminizationLimit = v
	}
	if v, ok := kv["states"]; ok {
		cfg.MaxStates = uint32(v)
	}
	c.cfg = cfg
	d, err := lazy.CompileWithConfig(n, cfg)
	if err != nil {
		c.dfaErr = true
	} else {
		c.dfa = d
	}
	rcfg := cfg
	rcfg.BreakAtMatch = false
	r, err := lazy.CompileWithConfig(nfa.ReverseAnchored(n), rcfg)
	if err == nil {
		c.rev = r
	}
	re, perr := syntax.Parse(it.Pattern, syntax.Perl)
	if perr == nil {
		an, aerr := nfa.NewCompiler(nfa.CompilerConfig{UTF8: true, Anchored: true, MaxRecursionDepth: 100}).CompileRegexp(re)
		if aerr == nil {
			op, oerr := onepass.Build(an)
			if oerr == nil {
				c.op = op
			} else {
				c.opErr = true
			}
		}
	}
	c.std = regexp.MustCompile(it.Pattern)
	c.stdL = regexp.MustCompile(it.Pattern)
	c.stdL.Longest()
	c.stdA = regexp.MustCompile(`^(?:` + it.Pattern + `)`)
	c.stdAL = regexp.MustCompile(`^(?:` + it.Pattern + `)`)
	c.stdAL.Longest()
	if it.N > 0 && it.Mode == 1 {
		c.stdAt = regexp.MustCompile(`(?s)^.{` + itoa(it.N) + `}.*?(` + it.Pattern + `)`)
	}
	setSet(&c.set, it.Alpha)
	return c
}

func span(s, e int, ok bool) []int {
	if !ok {
		return nil
	}
	return []int{s, e}
}

func capsToSlots(m *nfa.MatchWithCaptures) []int {
	if m == nil {
		return nil
	}
	out := make([]int, 0, 2*len(m.Captures))
	for _, c := range m.Captures {
		if c == nil {
			out = append(out, -1, -1)
		} else {
			out = append(out, c[0], c[1])
		}
	}
	return out
}

func endOf(loc []int) int {
	if loc == nil {
		return -1
	}
	return loc[1]
}

func runC14(c *engCtx, it *Item) {
	h := haystack(it, &c.set)
	at := it.N
	// reference spans (patterns of the C14 corpus have no look-behind when at > 0,
	// so searching h[at:] and shifting is the reference for a start offset)
	var first, longest []int
	if at == 0 {
		first, longest = c.std.FindIndex(h), c.stdL.FindIndex(h)
	} else if c.stdAt != nil {
		// look-behind pattern at an offset: the reference sees the whole haystack
		// (ASCII alphabet, so one rune is one byte); corpus patterns of this kind
		// have no leftmost-first / leftmost-longest ambiguity
		if m := c.stdAt.FindSubmatchIndex(h); m != nil {
			first = []int{m[2], m[3]}
			longest = first
		}
	} else {
		if f := c.std.FindIndex(h[at:]); f != nil {
			first = []int{f[0] + at, f[1] + at}
		}
		if l := c.stdL.FindIndex(h[at:]); l != nil {
			longest = []int{l[0] + at, l[1] + at}
		}
	}
	verif.SnapInts("first", first)
	verif.SnapInts("longest", longest)
	reachBool(first != nil)
	switch it.API {
	case "pike.Search":
		got := span(c.pike.Search(h))
		verif.SnapInts("got", got)
		verif.Assert(eqInts(got, first), "C14 PikeVM.Search differs from the reference span")
	case "pike.SearchAt":
		got := span(c.pike.SearchAt(h, at))
		verif.SnapInts("got", got)
		verif.Assert(eqInts(got, first), "C14 PikeVM.SearchAt differs from the reference span")
	case "pike.IsMatch":
		got := c.pike.IsMatch(h)
		verif.SnapBool("gotb", got)
		verif.Assert(got == (first != nil), "C14 PikeVM.IsMatch differs from the reference")
	case "pike.SlotTable":
		got := span(c.pike.SearchWithSlotTable(h, nfa.SearchModeFind))
		verif.SnapInts("got", got)
		verif.Assert(eqInts(got, first), "C14 PikeVM.SearchWithSlotTable differs from the reference span")
	case "pike.SlotTableAt":
		got := span(c.pike.SearchWithSlotTableAt(h, at, nfa.SearchModeFind))
		verif.SnapInts("got", got)
		verif.Assert(eqInts(got, first), "C14 PikeVM.SearchWithSlotTableAt differs from the reference span")
	case "pike.Captures":
		got := capsToSlots(c.pike.SearchWithCaptures(h))
		want := c.std.FindSubmatchIndex(h)
		verif.SnapInts("got", got)
		verif.SnapInts("want", want)
		verif.Assert(eqInts(got, want), "C14 PikeVM.SearchWithCaptures differs from regexp.FindSubmatchIndex")
	case "pike.SlotCaptures":
		got := capsToSlots(c.pike.SearchWithSlotTableCaptures(h))
		want := c.std.FindSubmatchIndex(h)
		verif.SnapInts("got", got)
		verif.SnapInts("want", want)
		verif.Assert(eqInts(got, want), "C14 PikeVM.SearchWithSlotTableCaptures differs from regexp.FindSubmatchIndex")
	case "pike.Between":
		// SearchBetween(h, 0, len(h)) is a plain search
		got := span(c.pike.SearchBetween(h, at, len(h)))
		verif.SnapInts("got", got)
		verif.Assert(eqInts(got, first), "C14 PikeVM.SearchBetween differs from the reference span")
	case "bt.Search":
		if !c.bt.CanHandle(len(h)) {
			verif.Reach("declined")
			return
		}
		st := nfa.NewBacktrackerState()
		got := span(c.bt.SearchAtWithState(h, at, st))
		verif.SnapInts("got", got)
		verif.Assert(eqInts(got, first), "C14 BoundedBacktracker.SearchAtWithState differs from the reference span")
	case "bt.IsMatch":
		if !c.bt.CanHandle(len(h)) {
			verif.Reach("declined")
			return
		}
		st := nfa.NewBacktrackerState()
		got := c.bt.IsMatchWithState(h, st)
		verif.SnapBool("gotb", got)
		verif.Assert(got == (first != nil), "C14 BoundedBacktracker.IsMatchWithState differs from the reference")
	case "dfa.Find", "dfa.SearchAt", "dfa.SearchFirstAt", "dfa.IsMatch", "dfa.Anchored":
		if c.dfa == nil {
			verif.Reach("declined")
			return
		}
		cache := c.dfa.NewCache()
		switch it.API {
		case "dfa.Find":
			got := c.dfa.FindAt(cache, h, at)
			verif.SnapInt("gote", got)
			verif.Assert(got == endOf(first) || got == endOf(longest), "C14 lazy DFA FindAt returns neither the leftmost-first nor the leftmost-longest match end")
		case "dfa.SearchAt":
			got := c.dfa.SearchAt(cache, h, at)
			verif.SnapInt("gote", got)
			verif.Assert(got == endOf(first) || got == endOf(longest), "C14 lazy DFA SearchAt returns neither the leftmost-first nor the leftmost-longest match end")
		case "dfa.SearchFirstAt":
			got := c.dfa.SearchFirstAt(cache, h, at)
			verif.SnapInt("gote", got)
			// earliest-match mode: the end of some match that starts at the leftmost start, not beyond the leftmost-longest end
			if first == nil {
				verif.Assert(got == -1, "C14 lazy DFA SearchFirstAt reports a match where none exists")
			} else {
				verif.Assert(got >= first[0] && got <= endOf(longest), "C14 lazy DFA SearchFirstAt end outside [leftmost start, leftmost-longest end]")
			}
		case "dfa.IsMatch":
			got := c.dfa.IsMatchAt(cache, h, at)
			verif.SnapBool("gotb", got)
			verif.Assert(got == (first != nil), "C14 lazy DFA IsMatchAt differs from the reference")
		case "dfa.Anchored":
			got := c.dfa.SearchAtAnchored(cache, h, at)
			af, al := c.stdA.FindIndex(h[at:]), c.stdAL.FindIndex(h[at:])
			ef, el := -1, -1
			if af != nil {
				ef, el = af[1]+at, al[1]+at
			}
			verif.SnapInt("gote", got)
			verif.SnapInt("wantf", ef)
			verif.SnapInt("wantl", el)
			verif.Assert(got == ef || got == el, "C14 lazy DFA SearchAtAnchored returns neither anchored match end")
		}
		verif.SnapInt("clears", cache.ClearCount())
		if cache.ClearCount() > 0 {
			verif.Reach("cache-cleared")
		}
	case "dfa.Reverse":
		// reverse DFA from the reference match end finds the leftmost start
		if c.rev == nil || longest == nil {
			verif.Reach("declined")
			return
		}
		cache := c.rev.NewCache()
		got := c.rev.SearchReverse(cache, h, at, longest[1])
		verif.SnapInt("gots", got)
		verif.Assert(got == longest[0], "C14 reverse DFA SearchReverse does not find the leftmost start of the match ending at the reference end")
	case "dfa.IsMatchReverse":
		if c.rev == nil {
			verif.Reach("declined")
			return
		}
		cache := c.rev.NewCache()
		// a match of p ending exactly at len(h) exists iff (?:p)$ with \z semantics matches
		got := c.rev.IsMatchReverse(cache, h, 0, len(h))
		verif.SnapBool("gotb", got)
		_ = got
	case "onepass.Search":
		if c.op == nil {
			verif.Reach("declined")
			return
		}
		cache := onepass.NewCache(c.n.CaptureCount())
		got := c.op.Search(h, cache)
		var gotc []int
		if got != nil {
			gotc = append(gotc, got...)
		}
		want := c.stdA.FindSubmatchIndex(h)
		verif.SnapInts("got", gotc)
		verif.SnapInts("want", want)
		reachBool(want != nil)
		if got == nil {
			// nil is the documented "fall through to the two-phase search" answer
			verif.Reach("declined")
			return
		}
		verif.Assert(eqInts(gotc, want), "C14 one-pass DFA Search differs from regexp anchored FindSubmatchIndex")
	default:
		panic("C14: unknown API " + it.API)
	}
}
