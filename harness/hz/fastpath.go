package hz

import (
	"regexp"
	"regexp/syntax"

	"github.com/coregx/coregex/meta"
	"github.com/coregx/coregex/nfa"

	"verifh/verif"
)

// C19: specialised fast paths are exact on every pattern their own
// applicability test accepts.

type fpCtx struct {
	applicable bool
	ccs        *nfa.CharClassSearcher
	comp       *nfa.CompositeSearcher
	cdfa       *nfa.CompositeSequenceDFA
	bd         *nfa.BranchDispatcher
	al         *meta.AnchoredLiteralInfo
	eng        *meta.Engine
	pike       *nfa.PikeVM
	std        *regexp.Regexp
	set        [256]bool
}

func init() {
	setups["C19"] = func(it *Item) any { return setupFP(it) }
	runs["C19"] = func(c any, it *Item) { runC19(c.(*fpCtx), it) }
}

func setupFP(it *Item) *fpCtx {
	c := &fpCtx{}
	setSet(&c.set, it.Alpha)
	re, err := syntax.Parse(it.Pattern, syntax.Perl)
	if err != nil {
		panic(err)
	}
	c.std = regexp.MustCompile(it.Pattern)
	n, err := nfa.NewCompiler(nfa.DefaultCompilerConfig()).Compile(it.Pattern)
	if err != nil {
		panic(err)
	}
	c.pike = nfa.NewPikeVM(n)
	switch it.API {
	case "charclass":
		if nfa.IsSimpleCharClassPlus(re) {
			if r := nfa.ExtractCharClassRanges(re); r != nil {
				c.ccs = nfa.NewCharClassSearcher(r, 1)
				c.applicable = true
			}
		}
	case "composite":
		if nfa.IsCompositeCharClassPattern(re) {
			c.comp = nfa.NewCompositeSearcher(re)
			c.applicable = c.comp != nil
		}
	case "compositedfa":
		if nfa.IsCompositeSequenceDFAPattern(re) {
			c.cdfa = nfa.NewCompositeSequenceDFA(re)
			c.applicable = c.cdfa != nil
		}
	case "branch":
		if nfa.IsBranchDispatchPattern(re) {
			c.bd = nfa.NewBranchDispatcher(re)
			c.applicable = c.bd != nil
		}
	case "anchoredliteral":
		c.al = meta.DetectAnchoredLiteral(re)
		c.applicable = c.al != nil
	case "engine", "engine.IsMatch", "engine.Find":
		e, err := meta.Compile(it.Pattern)
		if err != nil {
			panic(err)
		}
		c.eng = e
		c.applicable = true
	default:
		panic("C19: unknown API " + it.API)
	}
	return c
}

func runC19(c *fpCtx, it *Item) {
	if !c.applicable {
		verif.Reach("not-applicable")
		return
	}
	verif.Reach("applicable")
	h := haystack(it, &c.set)
	at := it.N
	// reference: regexp at offset 0, the (separately checked) PikeVM for at > 0
	var want []int
	if at == 0 {
		want = c.std.FindIndex(h)
	} else {
		want = span(c.pike.SearchAt(h, at))
	}
	var got []int
	switch it.API {
	case "charclass":
		got = span(c.ccs.SearchAt(h, at))
		verif.Assert(c.ccs.IsMatch(h) == (c.std.Match(h)), "C19 CharClassSearcher.IsMatch differs from the reference")
	case "composite":
		got = span(c.comp.SearchAt(h, at))
		verif.Assert(c.comp.IsMatch(h) == (c.std.Match(h)), "C19 CompositeSearcher.IsMatch differs from the reference")
	case "compositedfa":
		got = span(c.cdfa.SearchAt(h, at))
		verif.Assert(c.cdfa.IsMatch(h) == (c.std.Match(h)), "C19 CompositeSequenceDFA.IsMatch differs from the reference")
	case "branch":
		got = span(c.bd.Search(h))
		verif.Assert(c.bd.IsMatch(h) == (c.std.Match(h)), "C19 BranchDispatcher.IsMatch differs from the reference")
	case "anchoredliteral":
		g := meta.MatchAnchoredLiteral(h, c.al)
		w := c.std.Match(h)
		verif.SnapBool("gotb", g)
		verif.SnapBool("wantb", w)
		reachBool(w)
		verif.Assert(g == w, "C19 MatchAnchoredLiteral differs from the reference")
		return
	case "engine":
		got = span(c.eng.FindIndicesAt(h, at))
	case "engine.Find":
		// the *Match-returning family of meta.Engine (meta/find.go: its own dispatch over every strategy) and the
		// index-returning one must both equal the reference; at > 0 through FindAt / FindIndicesAt
		var m *meta.Match
		var s0, e0 int
		var ok bool
		if at == 0 {
			m = c.eng.Find(h)
			s0, e0, ok = c.eng.FindIndices(h)
		} else {
			m = c.eng.FindAt(h, at)
			s0, e0, ok = c.eng.FindIndicesAt(h, at)
		}
		if m != nil {
			got = []int{m.Start(), m.End()}
			verif.Assert(eqBytes(m.Bytes(), h[m.Start():m.End()]), "C19 Engine.Find: Match.Bytes is not the matched part of the haystack")
		}
		verif.SnapInts("gotidx", span(s0, e0, ok))
		verif.Assert(eqInts(span(s0, e0, ok), want), "C19 Engine.FindIndices(At) differs from the reference")
	case "engine.IsMatch":
		g := c.eng.IsMatch(h)
		w := c.std.Match(h)
		verif.SnapBool("gotb", g)
		verif.SnapBool("wantb", w)
		reachBool(w)
		verif.Assert(g == w, "C19 Engine.IsMatch differs from the reference for the selected strategy")
		return
	}
	verif.SnapInts("got", got)
	verif.SnapInts("want", want)
	reachBool(want != nil)
	verif.Assert(eqInts(got, want), "C19 "+it.API+" search differs from the reference")
}
