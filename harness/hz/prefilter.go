package hz

import (
	"regexp"
	"regexp/syntax"

	"github.com/coregx/coregex/literal"
	"github.com/coregx/coregex/prefilter"

	"verifh/verif"
)

// C16: prefilters never skip a match; complete prefilters are exact.
// C17: extracted literals are necessary for every match.

type pfCtx struct {
	pf    prefilter.Prefilter
	lits  [][]byte
	std   *regexp.Regexp // source alternation (for complete prefilters)
	kind  string
	set   [256]bool
	digit bool
	lineAnchor bool // wrapped by WrapLineAnchor: only line-start occurrences count
}

type litCtx struct {
	std    *regexp.Regexp // ^(?:p)$
	stdP   *regexp.Regexp // p (unanchored, for "complete" checks)
	pre    *literal.Seq
	suf    *literal.Seq
	inner  *literal.Seq
	innerR *literal.Seq
	set    [256]bool
}

func init() {
	setups["C16"] = func(it *Item) any { return setupPF(it) }
	runs["C16"] = func(c any, it *Item) { runC16(c.(*pfCtx), it) }
	setups["C17"] = func(it *Item) any { return setupLit(it) }
	runs["C17"] = func(c any, it *Item) { runC17(c.(*litCtx), it) }
}

// splitLits splits "a|bc|d" (no escaping: corpus literals are plain).
func splitLits(s string) [][]byte {
	var out [][]byte
	cur := []byte{}
	for i := 0; i < len(s); i++ {
		if s[i] == '|' {
			out = append(out, cur)
			cur = []byte{}
			continue
		}
		cur = append(cur, s[i])
	}
	out = append(out, cur)
	return out
}

func setSet(set *[256]bool, alpha string) {
	if len(alpha) > 4 && alpha[:4] == "set:" {
		for i := 4; i < len(alpha); i++ {
			set[alpha[i]] = true
		}
	}
	if len(alpha) > 4 && alpha[:4] == "hex:" {
		// "hex:6162c3a9" = the byte set {0x61,0x62,0xc3,0xa9}
		for i := 4; i+1 < len(alpha); i += 2 {
			set[hexVal(alpha[i])<<4|hexVal(alpha[i+1])] = true
		}
	}
}

func hexVal(c byte) byte {
	switch {
	case c >= '0' && c <= '9':
		return c - '0'
	case c >= 'a' && c <= 'f':
		return c - 'a' + 10
	}
	return 0
}

// setupPF builds the prefilter named by API from the literal set in Pattern.
func setupPF(it *Item) *pfCtx {
	c := &pfCtx{kind: it.API}
	setSet(&c.set, it.Alpha)
	if it.API == "digit" {
		c.pf = prefilter.NewDigitPrefilter()
		c.digit = true
		return c
	}
	c.lits = splitLits(it.Pattern)
	complete := it.Mode == 1
	mk := func() *literal.Seq {
		ls := make([]literal.Literal, len(c.lits))
		for i, l := range c.lits {
			ls[i] = literal.NewLiteral(append([]byte(nil), l...), complete)
		}
		return literal.NewSeq(ls...)
	}
	switch it.API {
	case "builder", "wrap-incomplete", "wrap-lineanchor", "tracker":
		c.pf = prefilter.NewBuilder(mk(), nil).Build()
	case "teddy":
		cfg := prefilter.DefaultTeddyConfig()
		t := prefilter.NewTeddy(c.lits, cfg)
		if t != nil {
			c.pf = t
		}
	case "fatteddy":
		t := prefilter.NewFatTeddy(c.lits, nil)
		if t != nil {
			c.pf = t
		}
	default:
		panic("C16: unknown prefilter kind " + it.API)
	}
	if c.pf != nil {
		switch it.API {
		case "wrap-incomplete":
			c.pf = prefilter.WrapIncomplete(c.pf)
		case "tracker":
			c.pf = prefilter.WrapWithTracking(c.pf)
		case "wrap-lineanchor":
			c.pf = prefilter.WrapLineAnchor(c.pf)
			c.lineAnchor = true
		}
	}
	// source alternation as a regexp (literals are plain bytes)
	src := ""
	for i, l := range c.lits {
		if i > 0 {
			src += "|"
		}
		src += regexp.QuoteMeta(string(l))
	}
	c.std = regexp.MustCompile(src)
	return c
}

func hasPrefixAt(h []byte, i int, l []byte) bool {
	if i+len(l) > len(h) {
		return false
	}
	for j := range l {
		if h[i+j] != l[j] {
			return false
		}
	}
	return true
}

func runC16(c *pfCtx, it *Item) {
	if c.pf == nil {
		verif.Reach("no-prefilter")
		return
	}
	h := haystack(it, &c.set)
	s := it.N
	if s > len(h) {
		s = len(h)
	}
	got := c.pf.Find(h, s)
	// definition: least i >= s where some literal occurs (digit: an ASCII digit)
	want := -1
	for i := s; i < len(h) && want < 0; i++ {
		if c.digit {
			if h[i] >= '0' && h[i] <= '9' {
				want = i
			}
			continue
		}
		if c.lineAnchor && i > 0 && h[i-1] != '\n' {
			continue // (?m)^ wrapper: only occurrences at the start of a line count, whatever the start offset is
		}
		for _, l := range c.lits {
			if hasPrefixAt(h, i, l) {
				want = i
				break
			}
		}
	}
	verif.SnapInt("got", got)
	verif.SnapInt("want", want)
	reachBool(want >= 0)
	verif.Assert(got == want, "C16 "+c.kind+" Find is not the smallest literal position at or after start")
	if !c.digit && !c.lineAnchor && c.pf.IsComplete() {
		verif.Reach("complete")
		loc := c.std.FindIndex(h[s:])
		if mf, ok := c.pf.(prefilter.MatchFinder); ok {
			ms, me := mf.FindMatch(h, s)
			verif.SnapInt("ms", ms)
			verif.SnapInt("me", me)
			if loc == nil {
				verif.Assert(ms == -1, "C16 complete prefilter FindMatch reports a match where the alternation has none")
			} else {
				verif.Assert(ms == loc[0]+s && me == loc[1]+s, "C16 complete prefilter FindMatch span differs from the leftmost-first match of the source alternation")
			}
		}
		if ll := c.pf.LiteralLen(); ll > 0 && loc != nil {
			verif.Assert(got == loc[0]+s && got+ll == loc[1]+s, "C16 complete prefilter position+LiteralLen differs from the leftmost-first match of the source alternation")
		}
	}
}

func setupLit(it *Item) *litCtx {
	c := &litCtx{}
	setSet(&c.set, it.Alpha)
	re, err := syntax.Parse(it.Pattern, syntax.Perl)
	if err != nil {
		panic(err)
	}
	cfg := literal.DefaultConfig()
	kv := parseKV(it.Extra)
	if v, ok := kv["maxlits"]; ok {
		cfg.MaxLiterals = v
	}
	if v, ok := kv["maxlen"]; ok {
		cfg.MaxLiteralLen = v
	}
	if v, ok := kv["maxclass"]; ok {
		cfg.MaxClassSize = v
	}
	if v, ok := kv["cross"]; ok {
		cfg.CrossProductLimit = v
	}
	ex := literal.New(cfg)
	c.pre = ex.ExtractPrefixes(re)
	c.suf = ex.ExtractSuffixes(re)
	c.inner = ex.ExtractInner(re)
	if info := ex.ExtractInnerForReverseSearch(re); info != nil {
		c.innerR = info.Literals
	}
	c.std = regexp.MustCompile(`^(?:` + it.Pattern + `)$`)
	c.stdP = regexp.MustCompile(it.Pattern)
	return c
}

func containsAt(m, l []byte) bool {
	for i := 0; i+len(l) <= len(m); i++ {
		if hasPrefixAt(m, i, l) {
			return true
		}
	}
	return false
}

func runC17(c *litCtx, it *Item) {
	// m ranges over every member of L(p) of length L (assumed through the oracle)
	m := haystack(it, &c.set)
	verif.Assume(c.std.Match(m))
	verif.Reach("match")
	verif.SnapBytes("m", m)
	check := func(seq *literal.Seq, kind string) {
		if seq == nil || seq.IsEmpty() || seq.IsPartialCoverage() {
			verif.Reach(kind + "-noinfo")
			return
		}
		verif.Reach(kind + "-info")
		if kind == "prefix" {
			// a literal marked complete is by itself an entire match
			for i := 0; i < seq.Len(); i++ {
				if l := seq.Get(i); l.Complete {
					verif.Assert(c.std.Match(l.Bytes), "C17 a prefix literal is flagged complete but is not a match of the pattern")
				}
			}
		}
		ok := false
		for i := 0; i < seq.Len() && !ok; i++ {
			l := seq.Get(i).Bytes
			switch kind {
			case "prefix":
				ok = hasPrefixAt(m, 0, l)
			case "suffix":
				ok = len(l) <= len(m) && hasPrefixAt(m, len(m)-len(l), l)
			default:
				ok = containsAt(m, l)
			}
		}
		verif.Assert(ok, "C17 a member of the language has none of the extracted "+kind+" literals")
	}
	switch it.API {
	case "prefix":
		check(c.pre, "prefix")
	case "suffix":
		check(c.suf, "suffix")
	case "inner":
		check(c.inner, "inner")
	case "innerR":
		check(c.innerR, "inner")
	default:
		panic("C17: unknown API " + it.API)
	}
}
