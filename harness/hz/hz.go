// Package hz holds the verification harnesses. Every harness is a pair
// Setup (concrete: compiles the values under test) and Run (symbolic inputs,
// the property as assertions). The same code is executed symbolically by
// gosymx and natively by cmd/replay.
package hz

import (
	"regexp"
	"unicode/utf8"

	"github.com/coregx/coregex"

	"verifh/verif"
)

// Item is one unit of work: a harness, a pattern (the "program") and a bound.
type Item struct {
	Harness string
	Pattern string
	API     string
	L       int    // number of symbolic haystack bytes
	Pre     string // concrete bytes before the symbolic part
	Post    string // concrete bytes after the symbolic part
	Alpha   string // "", "ascii", "utf8", or "set:<bytes>"
	Mode    int    // 0 leftmost-first, 1 Longest(), 2 CompilePOSIX
	N       int
	Extra   string
}

type reCtx struct {
	re  *coregex.Regex
	std *regexp.Regexp
	set [256]bool
}

// Setup dispatches on the harness name. Concrete.
func Setup(it *Item) any {
	switch it.Harness {
	case "C01", "C02", "C03", "C04", "C10", "C11":
		return setupRe(it)
	}
	if f, ok := setups[it.Harness]; ok {
		return f(it)
	}
	panic("unknown harness " + it.Harness)
}

// Run dispatches on the harness name. Symbolic.
func Run(ctx any, it *Item) {
	switch it.Harness {
	case "C01":
		runC01(ctx.(*reCtx), it)
		return
	case "C02":
		runC02(ctx.(*reCtx), it)
		return
	}
	if f, ok := runs[it.Harness]; ok {
		f(ctx, it)
		return
	}
	panic("unknown harness " + it.Harness)
}

var setups = map[string]func(*Item) any{}
var runs = map[string]func(any, *Item){}

func setupRe(it *Item) *reCtx {
	c := &reCtx{}
	switch it.Mode {
	case 0:
		c.re = coregex.MustCompile(it.Pattern)
		c.std = regexp.MustCompile(it.Pattern)
	case 1:
		c.re = coregex.MustCompile(it.Pattern)
		c.re.Longest()
		c.std = regexp.MustCompile(it.Pattern)
		c.std.Longest()
	case 2:
		c.re = coregex.MustCompilePOSIX(it.Pattern)
		c.std = regexp.MustCompilePOSIX(it.Pattern)
	}
	setSet(&c.set, it.Alpha)
	return c
}

// haystack builds Pre + L symbolic bytes + Post under the item's alphabet.
func haystack(it *Item, set *[256]bool) []byte {
	if one, ok := singleton(it, set); ok {
		// a one-symbol alphabet admits exactly one haystack of each length: build it concretely
		h := make([]byte, 0, len(it.Pre)+it.L+len(it.Post))
		h = append(h, it.Pre...)
		for i := 0; i < it.L; i++ {
			h = append(h, one)
		}
		h = append(h, it.Post...)
		return h
	}
	sym := verif.Bytes("h", it.L)
	switch {
	case it.Alpha == "ascii":
		for _, b := range sym {
			verif.Assume(b < 0x80)
		}
	case it.Alpha == "utf8":
		verif.Assume(utf8.Valid(sym))
	case len(it.Alpha) > 4 && (it.Alpha[:4] == "set:" || it.Alpha[:4] == "hex:"):
		for _, b := range sym {
			verif.Assume(set[b])
		}
	}
	if it.Pre == "" && it.Post == "" {
		return sym
	}
	h := make([]byte, 0, len(it.Pre)+it.L+len(it.Post))
	h = append(h, it.Pre...)
	h = append(h, sym...)
	h = append(h, it.Post...)
	return h
}

// singleton reports the only byte of a one-symbol set:/hex: alphabet.
func singleton(it *Item, set *[256]bool) (byte, bool) {
	if len(it.Alpha) <= 4 || (it.Alpha[:4] != "set:" && it.Alpha[:4] != "hex:") {
		return 0, false
	}
	n, one := 0, byte(0)
	for b := 0; b < 256; b++ {
		if set[b] {
			n++
			one = byte(b)
		}
	}
	return one, n == 1
}

func eqInts(a, b []int) bool {
	if (a == nil) != (b == nil) {
		return false
	}
	if len(a) != len(b) {
		return false
	}
	for i := range a {
		if a[i] != b[i] {
			return false
		}
	}
	return true
}

func eqBytes(a, b []byte) bool {
	if (a == nil) != (b == nil) {
		return false
	}
	if len(a) != len(b) {
		return false
	}
	for i := range a {
		if a[i] != b[i] {
			return false
		}
	}
	return true
}

func reachBool(b bool) {
	if b {
		verif.Reach("match")
	} else {
		verif.Reach("nomatch")
	}
}

// C01: Match* == stdlib Match.
func runC01(c *reCtx, it *Item) {
	h := haystack(it, &c.set)
	want := c.std.Match(h)
	var got bool
	switch it.API {
	case "Match":
		got = c.re.Match(h)
	case "MatchString":
		got = c.re.MatchString(string(h))
	case "MatchReader":
		got = c.re.MatchReader(&byteRuneReader{b: h})
	case "PkgMatch":
		g, err := coregex.Match(it.Pattern, h)
		verif.Assert(err == nil, "C01 package-level Match returned an error")
		got = g
	case "PkgMatchString":
		g, err := coregex.MatchString(it.Pattern, string(h))
		verif.Assert(err == nil, "C01 package-level MatchString returned an error")
		got = g
	default:
		panic("C01: unknown API " + it.API)
	}
	verif.SnapBool("got", got)
	verif.SnapBool("want", want)
	reachBool(want)
	verif.Assert(got == want, "C01 "+it.API+" differs from regexp.Match")
}

// C02: first-match location == stdlib leftmost-first.
func runC02(c *reCtx, it *Item) {
	h := haystack(it, &c.set)
	want := c.std.FindIndex(h)
	var got []int
	switch it.API {
	case "FindIndex":
		got = c.re.FindIndex(h)
	case "FindStringIndex":
		got = c.re.FindStringIndex(string(h))
	case "FindReaderIndex":
		got = c.re.FindReaderIndex(&byteRuneReader{b: h})
	case "Find":
		m := c.re.Find(h)
		wm := c.std.Find(h)
		verif.SnapBytes("gotm", m)
		verif.SnapBytes("wantm", wm)
		verif.Assert(eqBytes(m, wm), "C02 Find differs from regexp.Find")
		if m != nil && want != nil {
			verif.Assert(verif.SameCell(m, h[want[0]:]) || len(m) == 0, "C02 Find does not alias the haystack at the match offset")
		}
		got = want
	case "FindString":
		m := c.re.FindString(string(h))
		wm := c.std.Find(h)
		verif.SnapStr("gotm", m)
		verif.Assert(eqBytes([]byte(m), wm) || (wm == nil && m == ""), "C02 FindString differs from regexp")
		got = want
	default:
		panic("C02: unknown API " + it.API)
	}
	verif.SnapInts("got", got)
	verif.SnapInts("want", want)
	reachBool(want != nil)
	if want != nil && want[0] > 0 {
		verif.Reach("match@>0")
	}
	verif.Assert(eqInts(got, want), "C02 "+it.API+" differs from regexp.FindIndex")
}

// byteRuneReader is an io.RuneReader over a byte slice (UTF-8 decoding as in
// bytes.Reader.ReadRune).
type byteRuneReader struct {
	b []byte
	i int
}

type eofError struct{}

func (eofError) Error() string { return "EOF" }

func (r *byteRuneReader) ReadRune() (rune, int, error) {
	if r.i >= len(r.b) {
		return 0, 0, eofError{}
	}
	if c := r.b[r.i]; c < utf8.RuneSelf {
		r.i++
		return rune(c), 1, nil
	}
	ch, size := utf8.DecodeRune(r.b[r.i:])
	r.i += size
	return ch, size, nil
}

func init() {
	// SELF: reachability twin used by setup (the final assertion is false on
	// every path that reaches it; the check must report it).
	setups["SELF"] = func(it *Item) any { return setupRe(it) }
	runs["SELF"] = func(c any, it *Item) {
		h := haystack(it, &c.(*reCtx).set)
		_ = c.(*reCtx).re.Match(h)
		verif.Assert(false, "SELF reachability twin")
	}
}

var selfRaceCounter int

func init() {
	// SELFRACE: two logical threads write one variable without synchronisation;
	// the happens-before monitor must report it (vacuity guard for C06).
	setups["SELFRACE"] = func(it *Item) any { return &reCtx{} }
	runs["SELFRACE"] = func(c any, it *Item) {
		verif.Par(func() { selfRaceCounter++ }, func() { selfRaceCounter++ })
		verif.Reach("match")
	}
}
