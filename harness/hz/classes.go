package hz

import (
	"regexp"
	"regexp/syntax"

	"github.com/coregx/coregex"
	"github.com/coregx/coregex/nfa"

	"verifh/verif"
)

// C15: compiled byte automata recognise exactly the UTF-8 of the intended runes.

type clsCtx struct {
	pike *nfa.PikeVM
	re   *coregex.Regex
	std  *regexp.Regexp
	set  [256]bool
}

func init() {
	setups["C15"] = func(it *Item) any { return setupCls(it) }
	runs["C15"] = func(c any, it *Item) { runC15(c.(*clsCtx), it) }
}

func setupCls(it *Item) *clsCtx {
	c := &clsCtx{}
	setSet(&c.set, it.Alpha)
	full := `^(?:` + it.Pattern + `)$`
	cfg := nfa.DefaultCompilerConfig()
	switch it.Mode {
	case 1:
		cfg.UseRuneStates = true
	case 2:
		cfg.ASCIIOnly = true
	}
	re, err := syntax.Parse(full, syntax.Perl)
	if err != nil {
		panic(err)
	}
	n, err := nfa.NewCompiler(cfg).CompileRegexp(re)
	if err != nil {
		panic(err)
	}
	c.pike = nfa.NewPikeVM(n)
	c.re = coregex.MustCompile(full)
	c.std = regexp.MustCompile(full)
	return c
}

func runC15(c *clsCtx, it *Item) {
	b := haystack(it, &c.set)
	want := c.std.Match(b)
	var got bool
	switch it.API {
	case "nfa":
		got = c.pike.IsMatch(b)
	case "e2e":
		got = c.re.Match(b)
	default:
		panic("C15: unknown API " + it.API)
	}
	verif.SnapBool("got", got)
	verif.SnapBool("want", want)
	reachBool(want)
	verif.Assert(got == want, "C15 byte automaton and regexp disagree on membership")
}
