package hz

import (
	"regexp"

	"github.com/coregx/coregex"

	"verifh/verif"
)

// C07: total, memory-safe, well-formed results.
// C09: Compile accepts stdlib's language and reports stdlib's metadata.

func init() {
	setups["C07"] = func(it *Item) any {
		if it.API == "compile" {
			return &reCtx{}
		}
		return setupRe(it)
	}
	runs["C07"] = func(c any, it *Item) { runC07(c.(*reCtx), it) }
	setups["C09"] = func(it *Item) any { return &reCtx{} }
	runs["C09"] = func(c any, it *Item) { runC09(it) }
}

// symPattern builds the pattern text: Pattern with '\x00' marking the holes that
// are filled by symbolic bytes (over the item's alphabet), or N fully symbolic bytes.
func symPattern(it *Item, set *[256]bool) string {
	var b []byte
	k := 0
	for i := 0; i < len(it.Pattern); i++ {
		if it.Pattern[i] == 0 {
			s := verif.Byte("p" + itoa(k))
			orig := byte(0)
			if k < len(it.Extra) {
				orig = it.Extra[k]
			}
			k++
			verif.Assume(set[s] || (orig != 0 && s == orig))
			b = append(b, s)
		} else {
			b = append(b, it.Pattern[i])
		}
	}
	return string(b)
}

func wellFormedLoc(loc []int, n int, msg string) {
	if loc == nil {
		return
	}
	verif.Assert(len(loc) >= 2 && len(loc)%2 == 0, msg+": odd or short index slice")
	verif.Assert(0 <= loc[0] && loc[0] <= loc[1] && loc[1] <= n, msg+": span not within 0 <= start <= end <= len")
	for g := 1; 2*g+1 < len(loc); g++ {
		s, e := loc[2*g], loc[2*g+1]
		if s == -1 && e == -1 {
			continue
		}
		verif.Assert(s >= loc[0] && s <= e && e <= loc[1], msg+": capture span not ordered inside the overall match")
	}
}

func runC07(c *reCtx, it *Item) {
	switch it.API {
	case "compile":
		// pattern bytes are untrusted input: Compile must return (value or error) and a
		// following search must not panic
		var set [256]bool
		setSet(&set, it.Alpha)
		p := symPattern(it, &set)
		re, err := coregex.Compile(p)
		if err != nil {
			verif.Reach("nomatch")
			return
		}
		verif.Reach("match")
		for _, h := range []string{"", "a", "ab\n", "\xff", "aé1 "} {
			loc := re.FindStringSubmatchIndex(h)
			wellFormedLoc(loc, len(h), "C07 FindStringSubmatchIndex after Compile of an arbitrary pattern")
			_ = re.MatchString(h)
		}
	case "search":
		h := haystack(it, &c.set)
		keep := append([]byte(nil), h...)
		re := c.re
		loc := re.FindSubmatchIndex(h)
		wellFormedLoc(loc, len(h), "C07 FindSubmatchIndex")
		reachBool(loc != nil)
		fi := re.FindIndex(h)
		wellFormedLoc(fi, len(h), "C07 FindIndex")
		m := re.Find(h)
		if m != nil && fi != nil {
			verif.Assert(len(m) == fi[1]-fi[0], "C07 Find length differs from the FindIndex span")
			if len(m) > 0 {
				verif.Assert(verif.SameCell(m, h[fi[0]:]), "C07 Find does not alias the input at the reported offset")
			}
		}
		all := re.FindAllSubmatchIndex(h, -1)
		prevEnd := -1
		prevStart := -1
		for _, a := range all {
			wellFormedLoc(a, len(h), "C07 FindAllSubmatchIndex element")
			verif.Assert(a[0] >= prevEnd && a[0] >= prevStart, "C07 enumerated matches overlap or are out of order")
			verif.Assert(!(a[0] == prevStart && a[1] == prevEnd), "C07 enumeration repeats a match")
			prevStart, prevEnd = a[0], a[1]
		}
		_ = re.ReplaceAll(h, []byte("$0-$1"))
		_ = re.ReplaceAllLiteral(h, []byte("r"))
		_ = re.ReplaceAllStringFunc(string(h), func(m string) string { return m })
		itPrevS, itPrevE, itN := -1, -1, 0
		for m := range re.AllIndex(h) {
			verif.Assert(0 <= m[0] && m[0] <= m[1] && m[1] <= len(h), "C07 AllIndex span not within the haystack")
			verif.Assert(m[0] >= itPrevE && m[0] >= itPrevS && !(m[0] == itPrevS && m[1] == itPrevE), "C07 AllIndex matches overlap, repeat or are out of order")
			itPrevS, itPrevE = m[0], m[1]
			itN++
			verif.Assert(itN <= len(h)+1, "C07 AllIndex yields more matches than positions")
		}
		_ = re.Split(string(h), -1)
		_ = re.Match(h)
		verif.Assert(eqBytes(h, keep), "C07 a search modified the haystack")
	default:
		panic("C07: unknown API " + it.API)
	}
}

func eqStrs(a, b []string) bool {
	if len(a) != len(b) {
		return false
	}
	for i := range a {
		if a[i] != b[i] {
			return false
		}
	}
	return true
}

func runC09(it *Item) {
	var set [256]bool
	setSet(&set, it.Alpha)
	switch it.API {
	case "QuoteMeta":
		s := verif.Bytes("s", it.L)
		got := coregex.QuoteMeta(string(s))
		want := regexp.QuoteMeta(string(s))
		verif.SnapStr("got", got)
		verif.SnapStr("want", want)
		verif.Reach("match")
		verif.Assert(got == want, "C09 QuoteMeta differs from regexp.QuoteMeta")
	case "QuoteMetaCompile":
		// Compile(QuoteMeta(s)) matches exactly s
		s := verif.Bytes("s", it.L)
		for _, b := range s {
			verif.Assume(set[b])
		}
		re, err := coregex.Compile(`^(?:` + coregex.QuoteMeta(string(s)) + `)$`)
		if err != nil {
			// s is not valid UTF-8: regexp.Compile rejects the quoted text as well
			_, serr := regexp.Compile(`^(?:` + regexp.QuoteMeta(string(s)) + `)$`)
			verif.Assert(serr != nil, "C09 Compile(QuoteMeta(s)) fails although regexp accepts it")
			verif.Reach("nomatch")
			return
		}
		verif.Reach("match")
		verif.Assert(re.Match(s), "C09 Compile(QuoteMeta(s)) does not match s")
		t := verif.Bytes("t", it.L)
		for _, b := range t {
			verif.Assume(set[b])
		}
		verif.Assert(re.Match(t) == eqBytes(s, t), "C09 Compile(QuoteMeta(s)) matches a string other than s")
	case "compile", "compileposix":
		p := symPattern(it, &set)
		var gerr, werr error
		var g *coregex.Regex
		var w *regexp.Regexp
		if it.API == "compile" {
			g, gerr = coregex.Compile(p)
			w, werr = regexp.Compile(p)
		} else {
			g, gerr = coregex.CompilePOSIX(p)
			w, werr = regexp.CompilePOSIX(p)
		}
		verif.SnapStr("pattern", p)
		verif.SnapBool("goterr", gerr != nil)
		verif.SnapBool("wanterr", werr != nil)
		reachBool(werr == nil)
		verif.Assert((gerr != nil) == (werr != nil), "C09 Compile acceptance differs from regexp")
		if gerr != nil {
			verif.Assert(gerr.Error() == werr.Error(), "C09 Compile error text differs from regexp")
			return
		}
		verif.Assert(g.String() == w.String(), "C09 String() differs from regexp")
		verif.Assert(g.NumSubexp() == w.NumSubexp(), "C09 NumSubexp differs from regexp")
		verif.Assert(eqStrs(g.SubexpNames(), w.SubexpNames()), "C09 SubexpNames differs from regexp")
		gp, gc := g.LiteralPrefix()
		wp, wc := w.LiteralPrefix()
		verif.SnapStr("gotprefix", gp)
		verif.SnapStr("wantprefix", wp)
		verif.Assert(gp == wp && gc == wc, "C09 LiteralPrefix differs from regexp")
		for _, name := range w.SubexpNames() {
			if name != "" {
				verif.Assert(g.SubexpIndex(name) == w.SubexpIndex(name), "C09 SubexpIndex differs from regexp")
			}
		}
		verif.Assert(g.SubexpIndex("nosuchname") == -1, "C09 SubexpIndex of an unknown name is not -1")
		txt, merr := g.MarshalText()
		verif.Assert(merr == nil && string(txt) == p, "C09 MarshalText does not return the pattern")
		// regexp's UnmarshalText calls Compile (Perl syntax) whatever compiled the original, so a POSIX-only pattern
		// such as a** fails to round-trip there too: the oracle is regexp's own outcome, not "always succeeds".
		var u coregex.Regex
		var wu regexp.Regexp
		wtxt, _ := w.MarshalText()
		uerr, wuerr := u.UnmarshalText(txt), wu.UnmarshalText(wtxt)
		verif.Assert((uerr == nil) == (wuerr == nil), "C09 UnmarshalText(MarshalText()) succeeds/fails differently from regexp")
		if uerr == nil {
			verif.Assert(u.String() == p && wu.String() == p, "C09 UnmarshalText(MarshalText()) does not round-trip")
		} else {
			verif.Assert(uerr.Error() == wuerr.Error(), "C09 UnmarshalText error text differs from regexp")
		}
		verif.Assert(g.Copy().String() == p, "C09 Copy().String() differs")
	default:
		panic("C09: unknown API " + it.API)
	}
}
