package hz

import (
	"regexp"

	"github.com/coregx/coregex"
	"github.com/coregx/coregex/nfa"

	"verifh/verif"
)

// C12: optimisation settings never change answers.
// C13: results do not depend on what the Regex was used for before.
// C20: memory per Regex stays bounded.

type cfgCtx struct {
	re   *coregex.Regex // under the item's configuration
	def  *coregex.Regex // default configuration
	pike *nfa.PikeVM    // plain NFA simulation
	std  *regexp.Regexp
	set  [256]bool
}

func init() {
	setups["C12"] = func(it *Item) any { return setupCfg(it) }
	runs["C12"] = func(c any, it *Item) { runC12(c.(*cfgCtx), it) }
}

func setupCfg(it *Item) *cfgCtx {
	c := &cfgCtx{}
	setSet(&c.set, it.Alpha)
	cfg := coregex.DefaultConfig()
	kv := parseKV(it.Extra)
	if v, ok := kv["dfa"]; ok {
		cfg.EnableDFA = v != 0
	}
	if v, ok := kv["pf"]; ok {
		cfg.EnablePrefilter = v != 0
	}
	if v, ok := kv["ascii"]; ok {
		cfg.EnableASCIIOptimization = v != 0
	}
	if v, ok := kv["states"]; ok {
		cfg.MaxDFAStates = uint32(v)
	}
	if v, ok := kv["det"]; ok {
		cfg.DeterminizationLimit = v
	}
	if v, ok := kv["minlit"]; ok {
		cfg.MinLiteralLen = v
	}
	if v, ok := kv["maxlits"]; ok {
		cfg.MaxLiterals = v
	}
	if v, ok := kv["rec"]; ok {
		cfg.MaxRecursionDepth = v
	}
	if err := cfg.Validate(); err != nil {
		panic("invalid config in corpus: " + err.Error())
	}
	re, err := coregex.CompileWithConfig(it.Pattern, cfg)
	if err != nil {
		panic("CompileWithConfig: " + err.Error())
	}
	c.re = re
	c.def = coregex.MustCompile(it.Pattern)
	n, err := nfa.NewCompiler(nfa.DefaultCompilerConfig()).Compile(it.Pattern)
	if err != nil {
		panic(err)
	}
	c.pike = nfa.NewPikeVM(n)
	c.std = regexp.MustCompile(it.Pattern)
	return c
}

func runC12(c *cfgCtx, it *Item) {
	h := haystack(it, &c.set)
	switch it.API {
	case "Match":
		g, d, p := c.re.Match(h), c.def.Match(h), c.pike.IsMatch(h)
		verif.SnapBool("cfg", g)
		verif.SnapBool("def", d)
		verif.SnapBool("nfa", p)
		reachBool(d)
		verif.Assert(g == d, "C12 Match under the configuration differs from the default configuration")
		verif.Assert(g == p, "C12 Match under the configuration differs from the plain NFA simulation")
	case "FindIndex":
		g, d, p := c.re.FindIndex(h), c.def.FindIndex(h), span(c.pike.Search(h))
		verif.SnapInts("cfg", g)
		verif.SnapInts("def", d)
		verif.SnapInts("nfa", p)
		reachBool(d != nil)
		verif.Assert(eqInts(g, d), "C12 FindIndex under the configuration differs from the default configuration")
		verif.Assert(eqInts(g, p), "C12 FindIndex under the configuration differs from the plain NFA simulation")
	case "FindSubmatchIndex":
		g, d, p := c.re.FindSubmatchIndex(h), c.def.FindSubmatchIndex(h), capsToSlots(c.pike.SearchWithCaptures(h))
		verif.SnapInts("cfg", g)
		verif.SnapInts("def", d)
		verif.SnapInts("nfa", p)
		reachBool(d != nil)
		verif.Assert(eqInts(g, d), "C12 FindSubmatchIndex under the configuration differs from the default configuration")
		verif.Assert(eqInts(g, p), "C12 FindSubmatchIndex under the configuration differs from the plain NFA simulation")
	case "FindAllIndex":
		g, d := flatten(c.re.FindAllIndex(h, -1)), flatten(c.def.FindAllIndex(h, -1))
		verif.SnapInts("cfg", g)
		verif.SnapInts("def", d)
		reachBool(d != nil)
		verif.Assert(eqInts(g, d), "C12 FindAllIndex under the configuration differs from the default configuration")
	default:
		panic("C12: unknown API " + it.API)
	}
}
