#!/usr/bin/env python3
"""E2 `asmsym`: symbolic executor for the Plan 9 amd64 assembly kernels of /repo.

Every run re-parses the .s files of /repo's working tree. Slice contents, slice
LENGTH, needles and table contents are symbolic bit-vectors; every load must lie
inside its region for every value of the symbolic length (in-bounds obligation);
every store must hit a result slot or the function's own stack frame; the returned
values are proved equal to the scalar definition of the kernel on every path; a
final closure query shows that the explored paths cover every input.

Vector registers are modelled as 32 byte-lanes; 16-byte (SSE / X-register VEX)
forms act on the low 16 lanes with the architected upper-lane behaviour.
"""
import re
import sys
import time

from z3 import (And, BitVec, BitVecVal, BoolVal, Concat, Extract, If, LShR, Not, Or, Solver, UGE, UGT, ULE, ULT, ZeroExt, SignExt,
                is_bv_value, is_false, is_true, sat, simplify, unsat, unknown)

HAY_BASE = 0x100000
TAB_BASE = 0x800000
STK_BASE = 0x7000000
BUF_BASE = 0x9000000


class Unsupported(Exception):
    pass


class Violation(Exception):
    def __init__(self, kind, msg, model=None):
        super().__init__(msg)
        self.kind, self.msg, self.model = kind, msg, model


def parse_asm(path):
    """Returns {func: (instrs, labels, framesize)}; instrs = [(mnemonic, [operands], lineno)]."""
    funcs = {}
    cur = None
    for lineno, ln in enumerate(open(path, encoding="utf-8").read().split("\n"), 1):
        code = ln.split("//")[0].strip()
        if not code or code.startswith("#"):
            continue
        if code.startswith("TEXT"):
            m = re.match(r"TEXT\s+·(\w+)\(SB\)\s*,\s*\w+\s*,\s*\$(\d+)-(\d+)", code)
            if not m:
                raise Unsupported("TEXT line: " + code)
            cur = m.group(1)
            funcs[cur] = ([], {}, int(m.group(2)))
            continue
        if code.startswith(("DATA", "GLOBL")):
            raise Unsupported("DATA/GLOBL not modelled: " + code)
        if cur is None:
            continue
        m = re.match(r"^(\w+):$", code)
        if m:
            funcs[cur][1][m.group(1)] = len(funcs[cur][0])
            continue
        parts = code.split(None, 1)
        ops = []
        if len(parts) > 1:
            depth, tok = 0, ""
            for ch in parts[1]:
                if ch == "(":
                    depth += 1
                elif ch == ")":
                    depth -= 1
                if ch == "," and depth == 0:
                    ops.append(tok.strip())
                    tok = ""
                else:
                    tok += ch
            ops.append(tok.strip())
        funcs[cur][0].append((parts[0], ops, lineno))
    return funcs


GPR64 = ["AX", "BX", "CX", "DX", "SI", "DI", "BP", "SP", "R8", "R9", "R10", "R11", "R12", "R13", "R14", "R15"]
LOW8 = {"AL": "AX", "BL": "BX", "CL": "CX", "DL": "DX", "SIB": "SI", "DIB": "DI", "R8B": "R8", "R9B": "R9", "R10B": "R10", "R11B": "R11", "R12B": "R12", "R13B": "R13", "R14B": "R14", "R15B": "R15"}


def bv(v, w):
    return BitVecVal(v, w)


class Region:
    def __init__(self, name, base, maxsize, length, byte_terms, writable=False):
        self.name, self.base, self.maxsize, self.length, self.bytes, self.writable = name, base, maxsize, length, byte_terms, writable
        self.written = {}


class State:
    def __init__(self):
        self.r = {g: bv(0, 64) for g in GPR64}
        self.v = {i: [bv(0, 8)] * 32 for i in range(16)}
        self.zf = self.cf = self.sf = self.of = BoolVal(False)
        self.pc = 0
        self.rets = {}
        self.stack = {}
        self.bufw = {}
        self.back = 0  # number of backward jumps taken (loop iterations)

    def copy(self):
        n = State()
        n.r = dict(self.r)
        n.v = {k: list(x) for k, x in self.v.items()}
        n.zf, n.cf, n.sf, n.of, n.pc = self.zf, self.cf, self.sf, self.of, self.pc
        n.rets = dict(self.rets)
        n.stack = dict(self.stack)
        n.bufw = dict(self.bufw)
        n.back = self.back
        return n


class Exec:
    def __init__(self, funcs, fname, frame, regions, assumptions, ret_slots, timeout_ms=60000, max_steps=20000):
        self.prog, self.labels, self.framesize = funcs[fname]
        self.fname = fname
        self.frame = frame          # offset -> (term, width_bytes)
        self.regions = regions
        self.ret_slots = ret_slots  # offset -> width_bytes
        self.solver = Solver()
        self.solver.set("timeout", timeout_ms)
        for a in assumptions:
            self.solver.add(a)
        self.stats = {"paths": 0, "queries": 0, "loads": 0, "stores": 0, "solver_s": 0.0, "branches": 0, "unknown": 0}
        self.max_steps = max_steps
        self.mnemonics = set()

    # ---- solver helpers
    def check(self, *cs):
        t = time.time()
        self.solver.push()
        self.solver.add(*cs)
        r = self.solver.check()
        self.solver.pop()
        self.stats["queries"] += 1
        self.stats["solver_s"] += time.time() - t
        if r == unknown:
            self.stats["unknown"] += 1
        return r

    def model_of(self, *cs):
        self.solver.push()
        self.solver.add(*cs)
        m = None
        if self.solver.check() == sat:
            m = self.solver.model()
        self.solver.pop()
        return m

    # ---- operand decoding
    def reg64(self, st, name):
        if name in st.r:
            return st.r[name]
        raise Unsupported("register " + name)

    def is_vec(self, name):
        return re.match(r"^[XY]\d+$", name) is not None

    def vidx(self, name):
        return int(name[1:])

    def imm(self, tok):
        assert tok.startswith("$")
        return int(tok[1:], 0)

    def addr_of(self, st, tok):
        """memory operand -> (address term)"""
        m = re.match(r"^(-?(?:0x)?[0-9a-fA-F]+)?\((\w+)\)(?:\((\w+)\*(\d)\))?$", tok)
        if not m:
            raise Unsupported("memory operand " + tok)
        a = self.reg64(st, m.group(2))
        if m.group(1):
            a = a + bv(int(m.group(1), 0), 64)
        if m.group(3):
            a = a + self.reg64(st, m.group(3)) * bv(int(m.group(4)), 64)
        return simplify(a)

    def is_fp(self, tok):
        return tok.endswith("(FP)")

    def fp_off(self, tok):
        m = re.search(r"\+(\d+)\(FP\)$", tok)
        if not m:
            raise Unsupported("FP operand " + tok)
        return int(m.group(1))

    def is_mem(self, tok):
        return "(" in tok and not self.is_fp(tok)

    # ---- memory
    def load(self, st, addr, n, pcs):
        self.stats["loads"] += 1
        a = simplify(addr)
        if not is_bv_value(a):
            return self.load_symbolic(st, a, n, pcs)
        av = a.as_long()
        if STK_BASE - self.framesize <= av < STK_BASE + 4096:
            off = av - (STK_BASE - self.framesize)
            if off < 0 or off + n > self.framesize:
                raise Violation("stack", "%s: load outside the declared %d-byte frame at SP%+d" % (self.fname, self.framesize, off))
            out = []
            for i in range(n):
                if off + i not in st.stack:
                    raise Violation("stack", "%s: load of uninitialised stack byte SP+%d" % (self.fname, off + i))
                out.append(st.stack[off + i])
            return out
        for rg in self.regions:
            if rg.base <= av < rg.base + rg.maxsize + 64:
                off = av - rg.base
                end = bv(off + n, 64)
                # obligation: off+n <= length for every input on this path
                if off < 0 or self.check(*pcs, UGT(end, rg.length)) != unsat:
                    m = self.model_of(*pcs, UGT(end, rg.length))
                    raise Violation("over-read", "%s: load of [%d,%d) from %s can exceed its length (model: %s)" % (self.fname, off, off + n, rg.name, compact_model(m)), m)
                return [rg.bytes[off + i] if off + i < len(rg.bytes) else bv(0, 8) for i in range(n)]
        raise Violation("wild-read", "%s: load from address %#x outside every region" % (self.fname, av))

    def load_symbolic(self, st, a, n, pcs):
        """Load at a symbolic address: the stack frame (spilled vector indexed by a register)
        or one data region (table look-up / indexed haystack byte)."""
        lo = STK_BASE - self.framesize
        if self.framesize > 0:
            off = simplify(a - bv(lo, 64))
            if self.check(*pcs, UGT(off + bv(n, 64), bv(self.framesize, 64))) == unsat:
                out = []
                for i in range(n):
                    t = bv(0, 8)
                    for k in reversed(range(self.framesize)):
                        if k in st.stack:
                            t = If(off + bv(i, 64) == bv(k, 64), st.stack[k], t)
                    out.append(t)
                return out
        cands = []
        for rg in self.regions:
            inside = And(UGE(a, bv(rg.base, 64)), ULT(a, bv(rg.base + rg.maxsize + 64, 64)))
            if self.check(*pcs, inside) != unsat:
                cands.append(rg)
        if len(cands) != 1:
            raise Unsupported("symbolic address %s may point into %d regions" % (a, len(cands)))
        rg = cands[0]
        off = simplify(a - bv(rg.base, 64))
        bad = Or(ULT(a, bv(rg.base, 64)), UGT(off + bv(n, 64), rg.length))
        if self.check(*pcs, bad) != unsat:
            m = self.model_of(*pcs, bad)
            raise Violation("over-read", "%s: indexed load of %d byte(s) from %s can fall outside [0,len) (model: %s)" % (self.fname, n, rg.name, compact_model(m)), m)
        out = []
        for i in range(n):
            t = bv(0, 8)
            for k in reversed(range(len(rg.bytes))):
                t = If(off + bv(i, 64) == bv(k, 64), rg.bytes[k], t)
            out.append(t)
        return out

    def store(self, st, addr, byte_terms, pcs):
        self.stats["stores"] += 1
        a = simplify(addr)
        if not is_bv_value(a):
            raise Unsupported("store to symbolic address %s" % a)
        av = a.as_long()
        n = len(byte_terms)
        lo = STK_BASE - self.framesize
        if lo <= av and av + n <= STK_BASE:
            for i, b in enumerate(byte_terms):
                st.stack[av - lo + i] = b
            return
        for rg in self.regions:
            if rg.writable and rg.base <= av < rg.base + rg.maxsize + 64:
                off = av - rg.base
                end = bv(off + n, 64)
                if self.check(*pcs, UGT(end, rg.length)) != unsat:
                    m = self.model_of(*pcs, UGT(end, rg.length))
                    raise Violation("over-write", "%s: store to [%d,%d) of %s can exceed its length (model: %s)" % (self.fname, off, off + n, rg.name, compact_model(m)), m)
                for i, b in enumerate(byte_terms):
                    st.bufw[(rg.name, off + i)] = b
                return
        raise Violation("stray-write", "%s: store to address %#x (not a result slot, the frame or a writable buffer)" % (self.fname, av))

    # ---- value helpers
    def get32(self, st, name):
        return Extract(31, 0, self.reg64(st, name))

    def set32(self, st, name, val):
        st.r[name] = ZeroExt(32, val)

    def get8(self, st, name):
        return Extract(7, 0, st.r[LOW8[name]])

    def set8(self, st, name, val):
        full = st.r[LOW8[name]]
        st.r[LOW8[name]] = Concat(Extract(63, 8, full), val)

    def set_flags_logic(self, st, res, w):
        st.zf = res == bv(0, w)
        st.sf = Extract(w - 1, w - 1, res) == bv(1, 1)
        st.cf = BoolVal(False)
        st.of = BoolVal(False)

    def set_flags_sub(self, st, x, y, w):
        res = x - y
        st.zf = x == y
        st.cf = ULT(x, y)
        st.sf = Extract(w - 1, w - 1, res) == bv(1, 1)
        sx, sy, sr = Extract(w - 1, w - 1, x), Extract(w - 1, w - 1, y), Extract(w - 1, w - 1, res)
        st.of = And(sx != sy, sr != sx)
        return res

    def set_flags_add(self, st, x, y, w):
        res = x + y
        st.zf = res == bv(0, w)
        st.cf = ULT(res, x)
        st.sf = Extract(w - 1, w - 1, res) == bv(1, 1)
        sx, sy, sr = Extract(w - 1, w - 1, x), Extract(w - 1, w - 1, y), Extract(w - 1, w - 1, res)
        st.of = And(sx == sy, sr != sx)
        return res

    def src_val(self, st, tok, w, pcs):
        """integer source operand of width w bits"""
        if tok.startswith("$"):
            return bv(self.imm(tok), w)
        if self.is_fp(tok):
            off = self.fp_off(tok)
            if off not in self.frame:
                raise Unsupported("read of frame slot %d" % off)
            term, nbytes = self.frame[off]
            if term.size() >= w:
                return Extract(w - 1, 0, term)
            return ZeroExt(w - term.size(), term)
        if self.is_mem(tok):
            bs = self.load(st, self.addr_of(st, tok), w // 8, pcs)
            return Concat(*reversed(bs)) if len(bs) > 1 else bs[0]
        if tok in LOW8:
            return ZeroExt(w - 8, self.get8(st, tok)) if w > 8 else self.get8(st, tok)
        return Extract(w - 1, 0, self.reg64(st, tok)) if w < 64 else self.reg64(st, tok)

    def dst_set(self, st, tok, val, w, pcs):
        if self.is_fp(tok):
            off = self.fp_off(tok)
            if off not in self.ret_slots:
                raise Violation("stray-write", "%s: store to argument slot %d(FP)" % (self.fname, off))
            st.rets[off] = (val, w)
            return
        if self.is_mem(tok):
            bs = [Extract(8 * i + 7, 8 * i, val) for i in range(w // 8)]
            self.store(st, self.addr_of(st, tok), bs, pcs)
            return
        if tok in LOW8:
            self.set8(st, tok, val)
            return
        if w == 64:
            st.r[tok] = val
        elif w == 32:
            self.set32(st, tok, val)
        elif w == 16:
            st.r[tok] = Concat(Extract(63, 16, st.r[tok]), val)
        else:
            raise Unsupported("dst width")

    def vload(self, st, tok, n, pcs):
        if self.is_vec(tok):
            return list(st.v[self.vidx(tok)][:n])
        return self.load(st, self.addr_of(st, tok), n, pcs)

    def vset(self, st, tok, lanes, zero_upper=True):
        i = self.vidx(tok)
        if len(lanes) == 32:
            st.v[i] = list(lanes)
        else:
            up = [bv(0, 8)] * 16 if zero_upper else st.v[i][16:]
            st.v[i] = list(lanes) + list(up)

    # ---- one instruction
    def step(self, st, pcs):
        op, a, lineno = self.prog[st.pc]
        st.pc += 1
        self.mnemonics.add(op)
        W = {"Q": 64, "L": 32, "W": 16, "B": 8}
        if op in ("MOVQ", "MOVL", "MOVW", "MOVB"):
            w = W[op[-1]]
            src, dst = a
            if op == "MOVQ" and self.is_vec(dst):  # MOVQ r64, X
                val = self.src_val(st, src, 64, pcs)
                self.vset(st, dst, [Extract(8 * i + 7, 8 * i, val) for i in range(8)] + [bv(0, 8)] * 8)
                return None
            if op == "MOVQ" and self.is_vec(src):
                lanes = st.v[self.vidx(src)]
                self.dst_set(st, dst, Concat(*reversed(lanes[:8])), 64, pcs)
                return None
            val = self.src_val(st, src, w, pcs)
            if w == 32 and not self.is_fp(dst) and not self.is_mem(dst):
                self.set32(st, dst, val)
            else:
                self.dst_set(st, dst, val, w, pcs)
        elif len(op) == 7 and op.startswith("MOV") and op[3] in "BWL" and op[4] in "WLQ" and op[5:] in ("ZX", "SX"):
            # MOVBLZX, MOVBQZX, MOVWLZX, MOVWQZX, MOVLQZX, MOVBLSX ...: a load of the SOURCE width (1/2/4 bytes,
            # each byte an in-bounds obligation), extended to the destination width; 32-bit results clear the upper half
            sw, dw = W[op[3]], W[op[4]]
            val = self.src_val(st, a[0], sw, pcs)
            ext = ZeroExt(dw - sw, val) if op[5:] == "ZX" else SignExt(dw - sw, val)
            if dw == 16:
                st.r[a[1]] = Concat(Extract(63, 16, self.reg64(st, a[1])), ext)
            else:
                st.r[a[1]] = ZeroExt(64 - dw, ext) if dw < 64 else ext
        elif op == "MOVD":
            src, dst = a
            if self.is_vec(dst):
                val = self.src_val(st, src, 32, pcs)
                self.vset(st, dst, [Extract(8 * i + 7, 8 * i, val) for i in range(4)] + [bv(0, 8)] * 12)
            else:
                lanes = st.v[self.vidx(src)]
                self.set32(st, dst, Concat(*reversed(lanes[:4])))
        elif op == "LEAQ":
            st.r[a[1]] = self.addr_of(st, a[0])
        elif op in ("ADDQ", "SUBQ", "ANDQ", "ORQ", "XORQ", "ADDL", "SUBL", "ANDL", "ORL", "XORL"):
            w = W[op[-1]]
            x = self.src_val(st, a[1], w, pcs)
            y = self.src_val(st, a[0], w, pcs)
            k = op[:-1]
            if k == "ADD":
                res = self.set_flags_add(st, x, y, w)
            elif k == "SUB":
                res = self.set_flags_sub(st, x, y, w)
            else:
                res = {"AND": x & y, "OR": x | y, "XOR": x ^ y}[k]
                self.set_flags_logic(st, res, w)
            if w == 32:
                self.set32(st, a[1], res)
            else:
                self.dst_set(st, a[1], res, w, pcs)
        elif op in ("INCQ", "DECQ"):
            x = self.reg64(st, a[0])
            cf = st.cf
            res = self.set_flags_add(st, x, bv(1, 64), 64) if op == "INCQ" else self.set_flags_sub(st, x, bv(1, 64), 64)
            st.cf = cf  # INC/DEC leave CF unchanged
            st.r[a[0]] = res
        elif op == "NOTL":
            self.set32(st, a[0], ~self.get32(st, a[0]))
        elif op in ("SHRL", "SHLL", "SHLQ", "SHRQ"):
            w = W[op[-1]]
            cnt = self.imm(a[0]) if a[0].startswith("$") else None
            if cnt is None:
                raise Unsupported("shift by register")
            x = self.src_val(st, a[1], w, pcs)
            res = LShR(x, bv(cnt, w)) if op.startswith("SHR") else x << bv(cnt, w)
            st.zf = res == bv(0, w)
            st.sf = Extract(w - 1, w - 1, res) == bv(1, 1)
            if w == 32:
                self.set32(st, a[1], res)
            else:
                st.r[a[1]] = res
        elif op in ("CMPQ", "CMPL", "CMPB"):
            w = W[op[-1]]
            x = self.src_val(st, a[0], w, pcs)
            y = self.src_val(st, a[1], w, pcs)
            self.set_flags_sub(st, x, y, w)
        elif op in ("TESTQ", "TESTL", "TESTB"):
            w = W[op[-1]]
            x = self.src_val(st, a[0], w, pcs)
            y = self.src_val(st, a[1], w, pcs)
            self.set_flags_logic(st, x & y, w)
        elif op == "BSFL":
            m = self.src_val(st, a[0], 32, pcs)
            r = bv(0, 32)
            for i in reversed(range(32)):
                r = If(Extract(i, i, m) == bv(1, 1), bv(i, 32), r)
            st.zf = m == bv(0, 32)
            self.set32(st, a[1], r)
        elif op == "BTRL":
            # BTRL r/imm, r : clear bit
            if a[0].startswith("$"):
                idx = bv(self.imm(a[0]) & 31, 32)
            else:
                idx = self.src_val(st, a[0], 32, pcs) & bv(31, 32)
            x = self.get32(st, a[1])
            st.cf = (LShR(x, idx) & bv(1, 32)) == bv(1, 32)
            self.set32(st, a[1], x & ~(bv(1, 32) << idx))
        # ---- vector moves
        elif op in ("VMOVDQU", "VMOVDQA", "MOVOU", "MOVOA"):
            src, dst = a
            n = 32 if (src.startswith("Y") or dst.startswith("Y")) else 16
            if self.is_vec(dst):
                lanes = self.vload(st, src, n, pcs)
                self.vset(st, dst, lanes, zero_upper=op.startswith("V"))
            else:
                lanes = st.v[self.vidx(src)][:n]
                self.store(st, self.addr_of(st, dst), lanes, pcs)
        elif op == "VPBROADCASTB":
            b = self.vload(st, a[0], 1, pcs)[0]
            n = 32 if a[1].startswith("Y") else 16
            self.vset(st, a[1], [b] * n)
        elif op == "VPBROADCASTQ":
            q = self.vload(st, a[0], 8, pcs)
            self.vset(st, a[1], q * 4)
        elif op == "VBROADCASTI128":
            q = self.vload(st, a[0], 16, pcs)
            self.vset(st, a[1], q * 2)
        elif op in ("VPCMPEQB", "VPCMPGTB", "VPAND", "VPOR", "VPXOR", "VPANDN", "VPMINUB", "VPMAXUB"):
            n = 32 if a[2].startswith("Y") else 16
            # Go operand order: op src2, src1, dst  (dst = src1 OP src2)
            y = self.vload(st, a[0], n, pcs)
            x = self.vload(st, a[1], n, pcs)
            self.vset(st, a[2], [self.lane_op(op[1:], x[i], y[i]) for i in range(n)])
        elif op in ("PAND", "PXOR", "PCMPEQB", "POR"):
            y = self.vload(st, a[0], 16, pcs)
            x = self.vload(st, a[1], 16, pcs)
            self.vset(st, a[1], [self.lane_op(op, x[i], y[i]) for i in range(16)], zero_upper=False)
        elif op in ("VPSHUFB", "PSHUFB"):
            if op == "VPSHUFB":
                n = 32 if a[2].startswith("Y") else 16
                idx = self.vload(st, a[0], n, pcs)
                tbl = self.vload(st, a[1], n, pcs)
                dst = a[2]
            else:
                n = 16
                idx = self.vload(st, a[0], 16, pcs)
                tbl = self.vload(st, a[1], 16, pcs)
                dst = a[1]
            out = []
            for i in range(n):
                base = 16 * (i // 16)
                sel = idx[i]
                t = bv(0, 8)
                for k in reversed(range(16)):
                    t = If(Extract(3, 0, sel) == bv(k, 4), tbl[base + k], t)
                out.append(If(Extract(7, 7, sel) == bv(1, 1), bv(0, 8), t))
            self.vset(st, dst, out, zero_upper=(op == "VPSHUFB"))
        elif op in ("VPSRLW", "PSRLW"):
            cnt = self.imm(a[0])
            if op == "VPSRLW":
                n = 32 if a[2].startswith("Y") else 16
                x = self.vload(st, a[1], n, pcs)
                dst = a[2]
            else:
                n = 16
                x = self.vload(st, a[1], 16, pcs)
                dst = a[1]
            out = []
            for i in range(0, n, 2):
                wv = LShR(Concat(x[i + 1], x[i]), bv(cnt, 16))
                out += [Extract(7, 0, wv), Extract(15, 8, wv)]
            self.vset(st, dst, out, zero_upper=(op == "VPSRLW"))
        elif op == "VPCMPEQD":
            n = 32 if a[2].startswith("Y") else 16
            y = self.vload(st, a[0], n, pcs)
            x = self.vload(st, a[1], n, pcs)
            out = []
            for i in range(0, n, 4):
                eq = And(*[x[i + k] == y[i + k] for k in range(4)])
                out += [If(eq, bv(0xFF, 8), bv(0, 8))] * 4
            self.vset(st, a[2], out)
        elif op in ("VPMOVMSKB", "PMOVMSKB"):
            n = 32 if a[0].startswith("Y") else 16
            x = st.v[self.vidx(a[0])][:n]
            bits = Concat(*reversed([Extract(7, 7, b) for b in x]))
            self.set32(st, a[1], ZeroExt(32 - n, bits) if n < 32 else bits)
        elif op == "VPTEST":
            n = 32 if a[0].startswith("Y") else 16
            y = self.vload(st, a[0], n, pcs)
            x = self.vload(st, a[1], n, pcs)
            st.zf = And(*[(x[i] & y[i]) == bv(0, 8) for i in range(n)])
            st.cf = And(*[(y[i] & ~x[i]) == bv(0, 8) for i in range(n)])
        elif op == "VPALIGNR":
            # VPALIGNR $imm, src2, src1, dst: per 128-bit lane, (src1:src2) >> imm*8
            imm = self.imm(a[0])
            n = 32 if a[3].startswith("Y") else 16
            s2 = self.vload(st, a[1], n, pcs)
            s1 = self.vload(st, a[2], n, pcs)
            out = []
            for lane in range(0, n, 16):
                cat = s2[lane:lane + 16] + s1[lane:lane + 16]
                for i in range(16):
                    k = i + imm
                    out.append(cat[k] if k < 32 else bv(0, 8))
            self.vset(st, a[3], out)
        elif op == "VPERM2I128":
            imm = self.imm(a[0])
            s2 = self.vload(st, a[1], 32, pcs)
            s1 = self.vload(st, a[2], 32, pcs)

            def pick(sel):
                if sel & 8:
                    return [bv(0, 8)] * 16
                src = [s1[:16], s1[16:], s2[:16], s2[16:]][sel & 3]
                return list(src)
            self.vset(st, a[3], pick(imm & 0xF) + pick((imm >> 4) & 0xF))
        elif op == "PUNPCKLQDQ":
            y = self.vload(st, a[0], 16, pcs)
            x = self.vload(st, a[1], 16, pcs)
            self.vset(st, a[1], x[:8] + y[:8], zero_upper=False)
        elif op == "VZEROUPPER":
            for i in range(16):
                st.v[i] = st.v[i][:16] + [bv(0, 8)] * 16
        elif op == "RET":
            return "ret"
        elif op == "JMP":
            if self.labels[a[0]] < st.pc:
                st.back += 1
            st.pc = self.labels[a[0]]
        elif op in ("JZ", "JE", "JNZ", "JNE", "JA", "JAE", "JB", "JBE", "JL", "JGE", "JLE", "JG", "JCC", "JCS", "JHI", "JLS", "JEQ", "JLT"):
            cond = {
                "JZ": st.zf, "JE": st.zf, "JEQ": st.zf, "JNZ": Not(st.zf), "JNE": Not(st.zf),
                "JA": And(Not(st.cf), Not(st.zf)), "JHI": And(Not(st.cf), Not(st.zf)), "JAE": Not(st.cf), "JCC": Not(st.cf),
                "JB": st.cf, "JCS": st.cf, "JBE": Or(st.cf, st.zf), "JLS": Or(st.cf, st.zf),
                "JL": st.sf != st.of, "JLT": st.sf != st.of, "JGE": st.sf == st.of, "JLE": Or(st.zf, st.sf != st.of), "JG": And(Not(st.zf), st.sf == st.of),
            }[op]
            return ("branch", simplify(cond), self.labels[a[0]])
        else:
            raise Unsupported("%s:%d mnemonic %s" % (self.fname, lineno, op))
        return None

    def lane_op(self, op, x, y):
        if op in ("PCMPEQB",):
            return If(x == y, bv(0xFF, 8), bv(0, 8))
        if op == "PCMPGTB":
            return If(x > y, bv(0xFF, 8), bv(0, 8))  # signed compare
        if op in ("PAND",):
            return x & y
        if op in ("POR",):
            return x | y
        if op in ("PXOR",):
            return x ^ y
        if op == "PANDN":
            return (~x) & y
        if op == "PMINUB":
            return If(ULT(x, y), x, y)
        if op == "PMAXUB":
            return If(UGT(x, y), x, y)
        raise Unsupported("lane op " + op)

    # ---- exploration with state merging at join labels
    def join_labels(self):
        """Instruction indices that can be reached from two or more predecessors."""
        preds = {}
        n = len(self.prog)
        for i, (op, a, _) in enumerate(self.prog):
            if op == "RET":
                continue
            if op == "JMP":
                preds.setdefault(self.labels[a[0]], set()).add(i)
                continue
            if op.startswith("J"):
                preds.setdefault(self.labels[a[0]], set()).add(i)
            if i + 1 < n:
                preds.setdefault(i + 1, set()).add(i)
        return {t for t, ps in preds.items() if len(ps) >= 2}

    def shape_key(self, st):
        key = [st.pc, st.back]
        for g in GPR64:
            v = simplify(st.r[g])
            key.append(v.as_long() if is_bv_value(v) else None)
        key.append(tuple(sorted(st.rets.keys())))
        key.append(tuple(sorted(st.stack.keys())))
        return tuple(key)

    def merge(self, items):
        """items: [(state, pcs)] with equal shape; returns one (state, pcs)."""
        if len(items) == 1:
            return items[0]
        # common prefix of the path conditions
        base = items[0][1]
        k = len(base)
        for _, pcs in items[1:]:
            m = 0
            while m < k and m < len(pcs) and pcs[m].eq(base[m]):
                m += 1
            k = m
        prefix = list(base[:k])
        conds = [And(*pcs[k:]) if len(pcs) > k else BoolVal(True) for _, pcs in items]
        out = items[0][0].copy()

        def mix(terms):
            t = terms[-1]
            same = all(x.eq(t) for x in terms)
            if same:
                return t
            for c, x in zip(reversed(conds[:-1]), reversed(terms[:-1])):
                t = If(c, x, t)
            return t
        for g in GPR64:
            out.r[g] = mix([st.r[g] for st, _ in items])
        for i in range(16):
            lanes = [st.v[i] for st, _ in items]
            out.v[i] = [mix([l[b] for l in lanes]) for b in range(32)]
        out.zf = mix([st.zf for st, _ in items])
        out.cf = mix([st.cf for st, _ in items])
        out.sf = mix([st.sf for st, _ in items])
        out.of = mix([st.of for st, _ in items])
        for off in out.rets:
            vals = [st.rets[off] for st, _ in items]
            out.rets[off] = (mix([v for v, _ in vals]), vals[0][1])
        for off in out.stack:
            out.stack[off] = mix([st.stack[off] for st, _ in items])
        allk = set()
        for st, _ in items:
            allk |= set(st.bufw.keys())
        for kx in allk:
            out.bufw[kx] = mix([st.bufw.get(kx, bv(0, 8)) for st, _ in items])
        self.stats["merges"] = self.stats.get("merges", 0) + len(items) - 1
        return out, prefix + [simplify(Or(*conds))]

    def run(self):
        st0 = State()
        st0.r["SP"] = bv(STK_BASE - self.framesize, 64)
        joins = self.join_labels()
        work = [(st0, [], True)]
        parked = {}
        results = []
        while work or parked:
            if not work:
                groups = {}
                for key, items in parked.items():
                    groups[key] = items
                parked = {}
                # release the group with the smallest pc first keeps later joins mergeable
                # release only the earliest group (fewest loop iterations, then lowest pc):
                # everything that can still arrive at a later join is released before it
                first_key = min(groups.keys(), key=lambda kx: (groups[kx][0][0].back, kx[0], str(kx)))
                mst, mpcs = self.merge(groups.pop(first_key))
                parked = groups
                work.append((mst, mpcs, True))
                continue
            st, pcs, released = work.pop()
            steps = 0
            first = released
            while True:
                if not first and st.pc in joins:
                    parked.setdefault(self.shape_key(st), []).append((st, pcs))
                    break
                first = False
                steps += 1
                if steps > self.max_steps:
                    raise Violation("unwind", "%s: more than %d instructions on one path (unwinding bound)" % (self.fname, self.max_steps))
                r = self.step(st, pcs)
                if r == "ret":
                    results.append((pcs, dict(st.rets), dict(st.bufw)))
                    self.stats["paths"] += 1
                    break
                if isinstance(r, tuple):
                    _, cond, target = r
                    if target < st.pc:
                        back_inc = 1
                    else:
                        back_inc = 0
                    if is_true(cond):
                        st.pc = target
                        st.back += back_inc
                    elif is_false(cond):
                        pass
                    else:
                        self.stats["branches"] += 1
                        t = self.check(*pcs, cond)
                        f = self.check(*pcs, Not(cond))
                        if t == unknown or f == unknown:
                            raise Unsupported("solver unknown on a branch of " + self.fname)
                        if t == sat and f == sat:
                            st2 = st.copy()
                            st2.pc = target
                            st2.back += back_inc
                            work.append((st2, pcs + [cond], False))
                            pcs = pcs + [Not(cond)]
                        elif t == sat:
                            st.pc = target
                            st.back += back_inc
                            pcs = pcs + [cond]
                        else:
                            pcs = pcs + [Not(cond)]
            if self.stats["paths"] > 20000:
                raise Unsupported("more than 20000 paths in " + self.fname)
        return results


def compact_model(m):
    if m is None:
        return "none"
    out = []
    for d in m.decls():
        n = d.name()
        if n in ("len", "needle", "n1", "n2", "n3", "off", "buflen") or (n.startswith("h") and n[1:].isdigit() and int(n[1:]) < 4):
            out.append("%s=%s" % (n, m[d]))
    return " ".join(sorted(out))
