#!/usr/bin/env python3
"""Kernel descriptions (frame layout, regions, scalar definitions) and the driver for asmsym.

  python3-vt kernels.py [--lmax N] [--only name] [--json out.json]
"""
import argparse
import json
import os
import sys
import time

from z3 import (And, BitVec, BitVecVal, BoolVal, Concat, Extract, If, Not, Or, UGE, UGT, ULE, ULT, ZeroExt, sat, simplify, unsat)

sys.path.insert(0, os.path.dirname(os.path.abspath(__file__)))
import asmsym as A  # noqa

REPO = os.environ.get("VERIF_REPO", "/repo")


def bv(v, w):
    return BitVecVal(v, w)


def hay(lmax):
    H = [BitVec("h%d" % i, 8) for i in range(lmax)]
    LEN = BitVec("len", 64)
    return H, LEN


def first_index(H, LEN, pred, lmax):
    r = bv(-1, 64)
    for i in reversed(range(lmax)):
        r = If(And(ULT(bv(i, 64), LEN), pred(H[i])), bv(i, 64), r)
    return r


def is_word(b):
    return Or(And(UGE(b, bv(65, 8)), ULE(b, bv(90, 8))), And(UGE(b, bv(97, 8)), ULE(b, bv(122, 8))), And(UGE(b, bv(48, 8)), ULE(b, bv(57, 8))), b == bv(95, 8))


def is_digit(b):
    return And(UGE(b, bv(48, 8)), ULE(b, bv(57, 8)))


def simple_kernel(fname, path, lmax, extra_args, spec_fn, ret_off, ret_w=8, min_len=0, base_shift=0):
    """Kernels of the shape f(haystack []byte, extra...) result."""
    H, LEN = hay(lmax)
    base = A.HAY_BASE + base_shift
    frame = {0: (bv(base, 64), 8), 8: (LEN, 8), 16: (LEN, 8)}
    syms = {}
    for off, name, w in extra_args:
        t = BitVec(name, w * 8)
        syms[name] = t
        frame[off] = (t, w)
    regions = [A.Region("haystack", base, lmax, LEN, H)]
    assumptions = [ULE(LEN, bv(lmax, 64)), UGE(LEN, bv(min_len, 64))]
    return dict(fname=fname, path=path, frame=frame, regions=regions, assumptions=assumptions, ret_slots={ret_off: ret_w},
                spec=lambda: {ret_off: spec_fn(H, LEN, syms, lmax)}, syms=syms, H=H, LEN=LEN)


def kernels(lmax, base_shift=0):
    S = os.path.join(REPO, "simd")
    ks = []
    ks.append(simple_kernel("memchrAVX2", S + "/memchr_amd64.s", lmax, [(24, "n1", 1)],
                            lambda H, L, s, m: first_index(H, L, lambda b: b == s["n1"], m), 32, base_shift=base_shift))
    ks.append(simple_kernel("memchr2AVX2", S + "/memchr_amd64.s", lmax, [(24, "n1", 1), (25, "n2", 1)],
                            lambda H, L, s, m: first_index(H, L, lambda b: Or(b == s["n1"], b == s["n2"]), m), 32, base_shift=base_shift))
    ks.append(simple_kernel("memchr3AVX2", S + "/memchr_amd64.s", lmax, [(24, "n1", 1), (25, "n2", 1), (26, "n3", 1)],
                            lambda H, L, s, m: first_index(H, L, lambda b: Or(b == s["n1"], b == s["n2"], b == s["n3"]), m), 32, base_shift=base_shift))
    ks.append(simple_kernel("memchrWordAVX2", S + "/memchr_class_amd64.s", lmax, [],
                            lambda H, L, s, m: first_index(H, L, is_word, m), 24, base_shift=base_shift))
    ks.append(simple_kernel("memchrNotWordAVX2", S + "/memchr_class_amd64.s", lmax, [],
                            lambda H, L, s, m: first_index(H, L, lambda b: Not(is_word(b)), m), 24, base_shift=base_shift))
    ks.append(simple_kernel("memchrDigitAVX2", S + "/memchr_digit_amd64.s", lmax, [],
                            lambda H, L, s, m: first_index(H, L, is_digit, m), 24, base_shift=base_shift))

    def ascii_spec(H, L, s, m):
        allascii = And(*[Or(UGE(bv(i, 64), L), ULT(H[i], bv(0x80, 8))) for i in range(m)])
        return If(allascii, bv(1, 8), bv(0, 8))
    ks.append(simple_kernel("isASCIIAVX2", S + "/ascii_amd64.s", lmax, [], ascii_spec, 24, ret_w=1, base_shift=base_shift))
    return ks


def pair_kernel(lmax, off, base_shift=0):
    S = os.path.join(REPO, "simd")

    def spec(H, L, s, m):
        r = bv(-1, 64)
        for i in reversed(range(m - off)):
            r = If(And(ULT(bv(i + off, 64), L), H[i] == s["n1"], H[i + off] == s["n2"]), bv(i, 64), r)
        return r
    k = simple_kernel("memchrPairAVX2", S + "/memchr_amd64.s", lmax, [(24, "n1", 1), (25, "n2", 1)], spec, 40, base_shift=base_shift)
    k["frame"][32] = (bv(off, 64), 8)
    k["label"] = "memchrPairAVX2[offset=%d]" % off
    return k


def teddy_kernel(fname, path, lmax, fplen, width, fat=False, base_shift=0):
    """Slim Teddy kernels: f(masks *teddyMasks, haystack []byte) (pos int, bucketMask uint8).
    teddyMasks: fingerprintLen uint32 @0, pad @4, loMasks [4][32]byte @8, hiMasks [4][32]byte @136.
    All 264 table bytes are symbolic (the result holds for every mask table); width=32 kernels read
    32-byte rows whose upper half duplicates the lower half (documented layout, assumed)."""
    H, LEN = hay(lmax)
    base = A.HAY_BASE + base_shift
    T = [BitVec("m%d" % i, 8) for i in range(264)]
    frame = {0: (bv(A.TAB_BASE, 64), 8), 8: (bv(base, 64), 8), 16: (LEN, 8), 24: (LEN, 8)}
    regions = [A.Region("haystack", base, lmax, LEN, H), A.Region("masks", A.TAB_BASE, 264, bv(264, 64), T)]
    assumptions = [ULE(LEN, bv(lmax, 64))]
    if width == 32:
        for p in range(4):
            for j in range(16):
                assumptions.append(T[8 + 32 * p + 16 + j] == T[8 + 32 * p + j])
                assumptions.append(T[136 + 32 * p + 16 + j] == T[136 + 32 * p + j])

    def lut(row_off, nib):
        t = bv(0, 8)
        for k in reversed(range(16)):
            t = If(nib == bv(k, 4), T[row_off + k], t)
        return t

    def cand(i):
        m = bv(0xFF, 8)
        for p in range(fplen):
            b = H[i + p]
            m = m & lut(8 + 32 * p, Extract(3, 0, b)) & lut(136 + 32 * p, Extract(7, 4, b))
        return m

    def spec():
        pos, mask = bv(-1, 64), bv(0, 8)
        for i in reversed(range(lmax - fplen + 1)):
            c = cand(i)
            ok = And(ULE(bv(i + fplen, 64), LEN), c != bv(0, 8))
            pos = If(ok, bv(i, 64), pos)
            mask = If(ok, c, mask)
        return {32: pos, 40: mask}
    return dict(fname=fname, path=path, frame=frame, regions=regions, assumptions=assumptions, ret_slots={32: 8, 40: 1}, spec=spec, H=H, LEN=LEN)


def fat_teddy_kernel(lmax, base_shift=0):
    """fatTeddyAVX2_2(masks *fatTeddyMasks, haystack []byte) (pos int, bucketMask uint16): 16 buckets,
    low 16 bytes of each 32-byte row = buckets 0-7, high 16 bytes = buckets 8-15; fingerprint length 2."""
    H, LEN = hay(lmax)
    base = A.HAY_BASE + base_shift
    T = [BitVec("m%d" % i, 8) for i in range(264)]
    frame = {0: (bv(A.TAB_BASE, 64), 8), 8: (bv(base, 64), 8), 16: (LEN, 8), 24: (LEN, 8)}
    regions = [A.Region("haystack", base, lmax, LEN, H), A.Region("masks", A.TAB_BASE, 264, bv(264, 64), T)]
    assumptions = [ULE(LEN, bv(lmax, 64))]

    def lut(row_off, nib):
        t = bv(0, 8)
        for k in reversed(range(16)):
            t = If(nib == bv(k, 4), T[row_off + k], t)
        return t

    def cand(i):
        lo, hi = bv(0xFF, 8), bv(0xFF, 8)
        for p in range(2):
            b = H[i + p]
            lo = lo & lut(8 + 32 * p, Extract(3, 0, b)) & lut(136 + 32 * p, Extract(7, 4, b))
            hi = hi & lut(8 + 32 * p + 16, Extract(3, 0, b)) & lut(136 + 32 * p + 16, Extract(7, 4, b))
        return Concat(hi, lo)

    def spec():
        pos, mask = bv(-1, 64), bv(0, 16)
        for i in reversed(range(lmax - 1)):
            c = cand(i)
            ok = And(ULE(bv(i + 2, 64), LEN), c != bv(0, 16))
            pos = If(ok, bv(i, 64), pos)
            mask = If(ok, c, mask)
        return {32: pos, 40: mask}
    def contract(rets):
        """Soundness contract (the real kernel reports spurious candidates, e.g. at position 0, which the
        caller's verification loop filters out; what Find's correctness needs is that no true candidate is
        skipped): pos == -1 => there is no true candidate; pos >= 0 => pos < len, mask != 0, pos <= first true
        candidate, and at the first true candidate the reported mask contains the true bucket bits."""
        sp = spec()
        tpos, tmask = sp[32], sp[40]
        gpos, gmask = rets[32][0], rets[40][0]
        none = gpos == bv(-1, 64)
        some = And(ULT(gpos, LEN), gmask != bv(0, 16),
                   Or(tpos == bv(-1, 64), ULE(gpos, tpos)),
                   Or(gpos != tpos, (gmask & tmask) == tmask))
        return Or(And(none, tpos == bv(-1, 64), gmask == bv(0, 16)), And(Not(none), some))
    return dict(fname="fatTeddyAVX2_2", path=os.path.join(REPO, "prefilter", "teddy_avx2_amd64.s"), frame=frame, regions=regions, assumptions=assumptions,
                ret_slots={32: 8, 40: 2}, spec=spec, contract=contract, H=H, LEN=LEN,
                note="relational contract (no true candidate skipped), not equality: the kernel over-approximates candidates")


def teddy_kernels(lmax, base_shift=0):
    P = os.path.join(REPO, "prefilter")
    return [
        teddy_kernel("teddySlimSSSE3_1", P + "/teddy_ssse3_amd64.s", lmax, 1, 16, base_shift=base_shift),
        teddy_kernel("teddySlimSSSE3_2", P + "/teddy_ssse3_amd64.s", lmax, 2, 16, base_shift=base_shift),
        teddy_kernel("teddySlimAVX2_1", P + "/teddy_slim_avx2_amd64.s", lmax, 1, 32, base_shift=base_shift),
        teddy_kernel("teddySlimAVX2_2", P + "/teddy_slim_avx2_amd64.s", lmax, 2, 32, base_shift=base_shift),
        fat_teddy_kernel(lmax, base_shift),
    ]


def run_kernel(k, timeout_ms=120000):
    t0 = time.time()
    out = {"kernel": k.get("label", k["fname"]), "file": os.path.relpath(k["path"], REPO), "ok": False}
    try:
        funcs = A.parse_asm(k["path"])
        ex = A.Exec(funcs, k["fname"], k["frame"], k["regions"], k["assumptions"], k["ret_slots"], timeout_ms=timeout_ms)
        res = ex.run()
        spec = k["spec"]()
        bad = []
        inconcl = 0
        for pcs, rets, bufw in res:
            if "contract" in k:
                missing = [off for off in k["ret_slots"] if off not in rets]
                if missing:
                    bad.append("path returns without writing result slot(s) %s" % missing)
                    continue
                okc = k["contract"](rets)
                r = ex.check(*pcs, Not(okc))
                if r == sat:
                    m = ex.model_of(*pcs, Not(okc))
                    bad.append("result violates the kernel contract (model: %s)" % A.compact_model(m))
                elif r != unsat:
                    inconcl += 1
                continue
            for off, want in spec.items():
                if off not in rets:
                    bad.append("path returns without writing result slot %d(FP)" % off)
                    continue
                got, w = rets[off]
                want_w = want if want.size() == got.size() else Extract(got.size() - 1, 0, want)
                r = ex.check(*pcs, got != want_w)
                if r == sat:
                    m = ex.model_of(*pcs, got != want_w)
                    bad.append("result differs from the scalar definition (model: %s)" % A.compact_model(m))
                elif r != unsat:
                    inconcl += 1
        cl = ex.check(Not(Or(*[And(*pcs) if pcs else BoolVal(True) for pcs, _, _ in res])))
        out.update({"paths": ex.stats["paths"], "loads_checked": ex.stats["loads"], "stores": ex.stats["stores"], "queries": ex.stats["queries"],
                    "solver_s": round(ex.stats["solver_s"], 2), "closure": str(cl), "violations": bad[:5], "inconclusive_results": inconcl,
                    "mnemonics": sorted(ex.mnemonics)})
        out["ok"] = (not bad) and cl == unsat and inconcl == 0
        if "note" in k:
            out["note"] = k["note"]
        if bad:
            out["kind"] = "result"
    except A.Violation as v:
        out.update({"violations": [v.msg], "kind": v.kind})
    except A.Unsupported as u:
        out.update({"unsupported": str(u)})
    out["wall_s"] = round(time.time() - t0, 2)
    return out


def main():
    ap = argparse.ArgumentParser()
    ap.add_argument("--lmax", type=int, default=72)
    ap.add_argument("--only")
    ap.add_argument("--json")
    ap.add_argument("--shift", type=int, default=0, help="byte offset of the haystack base (alignment)")
    ap.add_argument("--set", default="simd", help="simd | teddy")
    args = ap.parse_args()
    ap_set = args.set
    if ap_set == "teddy":
        ks = teddy_kernels(args.lmax, args.shift)
    else:
        ks = kernels(args.lmax, args.shift) + [pair_kernel(args.lmax, 1, args.shift), pair_kernel(args.lmax, 2, args.shift)]
    results = []
    for k in ks:
        if args.only and not any(o in k.get("label", k["fname"]) for o in args.only.split(",")):
            continue
        r = run_kernel(k)
        results.append(r)
        print(json.dumps({x: r[x] for x in r if x != "mnemonics"}))
        sys.stdout.flush()
    if args.json:
        json.dump(results, open(args.json, "w"), indent=1)


if __name__ == "__main__":
    main()
