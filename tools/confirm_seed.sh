#!/bin/bash
# confirm_seed.sh <scratch-worktree> <seed-dir>
# Confirms a seeded change in a scratch worktree of /repo (never /repo itself):
#   1. the change compiles and the repository's whole test suite passes with it,
#   2. the demonstration fails with the change, 3. and passes without it.
WT=$1; SD=$2
export GOFLAGS=-mod=mod GOPROXY=off
cd "$WT" || exit 2
git checkout -q -- . 2>/dev/null; git clean -fdq -e SEED 2>/dev/null
mv SEED /tmp/_seed_$$ 2>/dev/null
git apply "$SD/patch.diff" || { echo "patch does not apply"; exit 2; }
echo "== suite with change"; timeout 1500 go test -vet=off -count=1 ./... 2>&1 | grep -v "^ok\|no test files" | head -5; S=${PIPESTATUS[0]}; echo "suite_exit=$S"
cp "$SD/demo_test.go" ./zz_seed_demo_test.go
echo "== demo with change (must fail)"; timeout 300 go test -vet=off -count=1 -run TestSeedDemo . 2>&1 | tail -3; D1=${PIPESTATUS[0]}; echo "demo_with_exit=$D1"
git apply -R "$SD/patch.diff"
echo "== demo without change (must pass)"; timeout 300 go test -vet=off -count=1 -run TestSeedDemo . 2>&1 | tail -2; D2=${PIPESTATUS[0]}; echo "demo_without_exit=$D2"
rm -f zz_seed_demo_test.go
git checkout -q -- .
[ "$S" = 0 ] && [ "$D1" != 0 ] && [ "$D2" = 0 ] && echo "CONFIRMED" || echo "NOT CONFIRMED"
