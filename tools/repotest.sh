#!/bin/sh
# Runs the repository's own test suite (guard off) the way BASELINE.json does and
# prints a summary: number of passing tests and any failing test names.
cd /repo || exit 2
OUT=${1:-/tmp/repotest.json}
GOFLAGS=-mod=mod GOPROXY=off go test -json -vet=off -count=1 -timeout 25m ./... > "$OUT" 2>/tmp/repotest.err
python3 - "$OUT" <<'PY'
import json,sys
p=f=0; fails=[]
for l in open(sys.argv[1]):
    try: d=json.loads(l)
    except Exception: continue
    if d.get('Test') and d.get('Action')=='pass': p+=1
    if d.get('Test') and d.get('Action')=='fail': f+=1; fails.append(d['Package']+'::'+d['Test'])
    if not d.get('Test') and d.get('Action')=='fail': fails.append('PKG '+d['Package'])
print("pass",p,"fail",f); print("\n".join(fails[:30]))
PY
