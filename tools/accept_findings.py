#!/usr/bin/env python3
"""Turn a triage file (written by `check <PROP> --triage FILE`) into entries of
/verif/known_findings/<PROP>.json. Run by hand after each failing input has
been confirmed against the real build and judged a genuine defect; the checks
themselves never write that directory.

  accept_findings.py <PROP> <triage.json> --class NAME=REGEX ... [--only-pattern REGEX]

Only failing paths that reproduced natively (native k == fail/panic) are accepted.
Each entry: item key, SMT-LIB2 region (disjunction of the failing path
conditions), witness model, what failed, defect class.
"""
import json
import os
import re
import sys

VERIF = os.path.dirname(os.path.dirname(os.path.abspath(__file__)))
sys.path.insert(0, os.path.join(VERIF, "tools"))
from runner import item_key  # noqa


def main():
    prop, tfile = sys.argv[1], sys.argv[2]
    classes = []
    only = None
    args = sys.argv[3:]
    i = 0
    while i < len(args):
        if args[i] == "--class":
            name, rx = args[i + 1].split("=", 1)
            classes.append((name, re.compile(rx)))
            i += 2
        elif args[i] == "--only-pattern":
            only = re.compile(args[i + 1])
            i += 2
        else:
            raise SystemExit("bad arg " + args[i])
    tri = json.load(open(tfile))
    path = os.path.join(VERIF, "known_findings", prop + ".json")
    db = {"open": [], "fixed": []}
    if os.path.exists(path):
        db = json.load(open(path))
    groups = {}
    for e in tri:
        if e["native"].get("k") not in ("fail", "panic"):
            continue
        if only and not only.search(e["key"]["Pattern"]):
            continue
        groups.setdefault(item_key(e["key"]), []).append(e)
    existing = {item_key(e["key"]): e for e in db["open"]}
    added = 0
    for k, es in groups.items():
        pcs = sorted(set(e["pc"] for e in es))
        region = "(or " + " ".join(pcs) + ")" if len(pcs) > 1 else pcs[0]
        e0 = es[0]
        key = e0["key"]
        cls = "unclassified"
        for name, rx in classes:
            if rx.search(" ".join([key["Harness"], key["Pattern"], key["API"], key.get("Extra", ""), e0["msg"]])):
                cls = name
                break
        hexw = " ".join("%s=%#x" % (n, v) for n, v in sorted(e0["model"].items()))
        ctx = ""
        if key.get("Extra"):
            ctx += " extra=%s" % json.dumps(key["Extra"])
        if key.get("Pre") or key.get("Post"):
            ctx += " window=%s+%s" % (json.dumps(key.get("Pre", "")), json.dumps(key.get("Post", "")))
        if key.get("N"):
            ctx += " n=%d" % key["N"]
        what = "%s %s pattern=%s L=%d alpha=%s mode=%d%s: %s (witness %s: %s) [%s]" % (
            key["Harness"], key["API"], json.dumps(key["Pattern"]), key["L"], key.get("Alpha") or "full", key.get("Mode", 0), ctx,
            e0["msg"], hexw, json.dumps(e0.get("snaps")), cls)
        ent = {"key": key, "class": cls, "what": what, "witness": e0["model"], "snaps": e0.get("snaps"), "failing_paths": len(pcs), "region": region}
        if e0.get("post"):
            ent["post"] = True
        if key["Harness"] == "C06":
            ent["msgs"] = sorted(set(e["msg"] for e in es))
        if k in existing:
            existing[k].update(ent)
        else:
            db["open"].append(ent)
            added += 1
    db["open"].sort(key=lambda e: item_key(e["key"]))
    with open(path, "w") as f:
        json.dump(db, f, indent=1)
    print("accepted %d item regions (%d new) into %s" % (len(groups), added, path))


if __name__ == "__main__":
    main()
