#!/usr/bin/env python3
"""Adds (idempotently) the `fixed:` lines of the later fix commits to known_findings/<ID>.json. A fixed entry suppresses nothing."""
import json, os
VERIF = os.path.dirname(os.path.dirname(os.path.abspath(__file__)))
FIXES = [
    ("f92b00a", ["C01", "C02", "C04"], 'ReverseInner ran the suffix DFA unanchored on haystack[pos:]: \\w+@\\w+\\.\\w+ matched "a2@@b.c" (Match true, FindIndex [0 7]; regexp: no match)'),
    ("5d09239", ["C02", "C04", "C10", "C12"], 'composite searcher read cc{0} as cc*: [a-z]{0}[0-9]+ on "d22" returned [0 3], regexp [1 3]'),
    ("948b602", ["C02", "C03", "C04", "C10", "C11", "C19"], 'branch dispatcher matched a concatenation branch by its leading literal only: ^(\\d+|UU*|he) on "UU" returned [0 1], regexp [0 2]'),
    ("fb424db", ["C03", "C04"], 'capture search starting at the end of the input reported group 0 only: (a*) on "b" FindAllSubmatchIndex gave [[0 0 0 0] [1 1 -1 -1]], regexp [[0 0 0 0] [1 1 1 1]]'),
    ("4ec8781", ["C03", "C11", "C14"], 'one-pass DFA ignored leftmost-first preference: FindSubmatchIndex of (aa|aaab) on "aaab" gave [0 4 0 4] and of (a+?)(b*) on "aaa" gave [0 3 0 3 3 3]; regexp [0 2 0 2] / [0 1 0 1 1 1]; group 0 disagreed with FindIndex'),
    ("3eabc8c", ["C10"], 'FindAll/Count ignored Longest() on DFA strategies: a|ab, Longest, FindAllIndex "ab" gave [[0 1]], regexp [[0 2]]'),
    ("d2ec776", ["C09", "C10"], 'CompilePOSIX parsed with Perl syntax: CompilePOSIX(`\\d+`) was accepted (regexp: invalid escape sequence), $ did not match before "\\n", [^a-z] matched "\\n"'),
    ("d166c20", ["C02", "C04", "C10", "C11", "C12", "C19"], 'ReverseInner universal shortcuts: .*co.* on "co\\n" returned [0 3] (regexp [0 2]), on "\\nco" [0 3] (regexp [1 3]); .+X.+ matched "Xa"'),
    ("c4e5ca5", ["C12", "C13", "C14"], 'lazy DFA cache kept flatTrans across ClearKeepMemory/Reset: a|ab with CacheCapacityBytes=200, MaxCacheClears=1 found no match in "1a" after a search of "a\\n" on the same cache (fresh cache: end 2)'),
    ("53bd80b", ["C02", "C19"], '(?s).* prefix treated as line-bounded: (?s).*ab on "\\nab" returned [1 3], regexp [0 3]'),
    ("590cbe6", ["C02", "C04", "C11"], 'reverse-suffix searchers: Find of .*\\.tx on "a.tx\\nb.tx" returned [5 9] (regexp [0 4]); Find of \\w+\\.(com|org|net) on "a.com b.org" returned the LAST match [6 11] (regexp [0 5]); FindAll of [a-z.]+\\.(tx|lo|md) on "a.tx.lo" gave [[0 4]] (regexp [[0 7]])'),
    ("14c4115", ["C01", "C02", "C19"], 'reverse-anchored searcher ignored \\b at the match start: \\bab$ matched "bab" (FindIndex [1 3]; regexp: no match)'),
    ("952bfda", ["C09"], 'LiteralPrefix walked the AST: a^b gave "ab" (regexp "a"), a+b gave "" (regexp "a"), a{2}b gave "" (regexp "aa")'),
    ("bb986bd", ["C03", "C04", "C11"], 'limited reverse search returned a match cut by the anti-quadratic guard: .+a on "aba" FindSubmatchIndex/FindAll gave [1 3], FindIndex and regexp [0 3]'),
    ("5facb3b", ["C15"], '4-byte UTF-8 ranges of large classes accepted the whole plane of their lead byte: [\\x{10400}-\\x{10500}]+ matched U+10600'),
    ("cba9df1", ["C02", "C04"], 'ReverseInner took the match end from the first verified candidate: .*co[0-9]+ on "xco1 co2" returned [0 4] (regexp [0 8]); .*ERROR[0-9]+ on "xERROR123 and ERROR456" [0 9] (regexp [0 22])'),
    ("be63835", ["C02", "C04"], 'limited reverse search rejected an empty region: .*co.* on "co\\nco" returned [3 5] (regexp [0 2]), FindAll missed [0 2]'),
    ("32e1f94", ["C02", "C04", "C19"], 'composite sequence DFA accepted cc{2,} and searched it as cc+: [a-z]{2,}[0-9]+ on "a1 ab1" returned [0 2], regexp [3 6]'),
    ("34ebcaa", ["C03", "C10", "C14"], 'PikeVM copy-on-write captures leaked the writes of the preferred branch into the other branch: FindSubmatchIndex of (a)+c$ on "dac" gave [1 3 2 2], regexp [1 3 1 2]; PikeVM.SearchWithCaptures of (a)*c on "dac" gave [[1 3] [2 2]]'),
    ("ef4094b", ["C02", "C03"], 'reader APIs re-encoded an ill-formed byte as the 3 bytes of U+FFFD: FindReaderIndex of a over "\\xffa" returned [3 4], regexp [1 2]'),
    ("6119915", ["C01", "C02", "C04", "C19"], 'composite sequence DFA skipped every scanned byte after a failed attempt: [ab]+[12]+[ab]+[xy]+ found no match in "a1b2ax", regexp [2 6] (4 parts with overlapping classes)'),
    ("2049841", ["C01", "C02", "C04", "C19"], 'digit-run skip of the digit prefilter with a sub-class of [0-9]: [0-5]+\\.\\d+ found no match in "60.2", regexp [1 4] (found by the L = 4 tier)'),
    ("d5b594d", ["C01", "C19"], 'anchored-literal matcher compared runes U+0080..U+00FF as single bytes: ^a.*é$ did not match "aé" (found by the L = 4 tier)'),
    ("7a2b0c0", ["C02", "C19"], 'lazy .*? treated as the greedy dot-star prefix: .*?ab on "abab" returned [0 4], regexp [0 2] (found by the L = 4 tier)'),
]
for commit, props, what in FIXES:
    for p in props:
        path = os.path.join(VERIF, "known_findings", p + ".json")
        db = json.load(open(path)) if os.path.exists(path) else {"open": [], "fixed": []}
        line = "fixed: property=%s %s %s" % (p, commit, what)
        if not any((" %s " % commit) in x for x in db.setdefault("fixed", [])):
            db["fixed"].append(line)
            json.dump(db, open(path, "w"), indent=1)
print("ok")
