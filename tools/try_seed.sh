#!/bin/bash
# try_seed.sh <seed-dir> <check args...> : applies a seeded change to /repo, runs a check, undoes it.
SD=$1; shift
cd /verif
git -C /repo diff --quiet || { echo "/repo has local changes"; exit 2; }
git -C /repo apply "$(realpath "$SD")/patch.diff" || exit 2
./check "$@" 2>&1 | grep -v "  \.\.\." | cut -c1-260 | tail -6
git -C /repo checkout -- .
