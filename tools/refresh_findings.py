#!/usr/bin/env python3
"""refresh_findings.py <PROP> <triage.json>... : rebuilds the OPEN entries of
known_findings/<PROP>.json from triage files of runs on the unchanged tree
(union over the given files), keeping the 'fixed' list. Run by hand after review."""
import json, os, subprocess, sys
VERIF = os.path.dirname(os.path.dirname(os.path.abspath(__file__)))
CLASSES = [
    ("illformed-utf8-not-consumed", r"illformed"),
]
CLS = [
    ("reverse-strategy-newline", r"\.\*co|\.\*ab|\.\*aa|\.\*\\\.tx|\(\?s\)\.\*ab"),
    ("reverse-inner-plus-as-star", r"\.\+ab\.\+|\.\+ER\.\+"),
    ("nonword-boundary-multibyte", r"^\\B "),
    ("findall-ignores-longest", r"a\|ab.*FindAllIndex"),
    ("posix-parse-flags", r"longest mode.*|POSIX"),
    ("casefold-non-ascii", r"\(\?i\)"),
    ("literalprefix-differs", r"LiteralPrefix"),
    ("superlinear-search", r"C05"),
    ("shared-simulator-data-race", r"data race"),
    ("dfa-cache-stale-after-clear", r"dfa-cache"),
    ("maxliterals-truncation", r"maxlits|foo\|bar"),
    ("iterator-repeats-empty-match", r"AllIndex|AllString|All "),
    ("empty-group-capture-in-findall", r"FindAllSubmatch"),
]
def main():
    prop = sys.argv[1]
    path = os.path.join(VERIF, "known_findings", prop + ".json")
    fixed = []
    if os.path.exists(path):
        fixed = json.load(open(path)).get("fixed", [])
    json.dump({"open": [], "fixed": fixed}, open(path, "w"), indent=1)
    for tf in sys.argv[2:]:
        args = [sys.executable, os.path.join(VERIF, "tools", "accept_findings.py"), prop, tf]
        for name, rx in CLS:
            args += ["--class", "%s=%s" % (name, rx)]
        subprocess.run(args, check=True)
main()
