#!/usr/bin/env python3
"""refresh_findings.py <PROP> <triage.json>... : rebuilds the OPEN entries of
known_findings/<PROP>.json from triage files of runs on the unchanged tree
(union over the given files), keeping the 'fixed' list. Run by hand after review."""
import json, os, subprocess, sys
VERIF = os.path.dirname(os.path.dirname(os.path.abspath(__file__)))
CLASSES = [
    ("illformed-utf8-not-consumed", r"illformed"),
]
CLS = [
    # matched against "<harness> <pattern> <api> <extra> <message>"
    ("shared-simulator-data-race", r"data race"),
    ("superlinear-search", r"^C05 "),
    ("maxliterals-truncation", r"maxlits|maxlen|^C17 \\d:\\d"),
    ("casefold-non-ascii", r"\(\?i\)"),
    ("illformed-utf8-not-consumed", r"^C15 |\(tx\|lo\|md\)"),
    ("nonword-boundary-multibyte", r"^C\d\d \\B |^C\d\d \.\{2\} "),
    ("casefold-non-ascii", r"\(\?i\)"),
    ("literalprefix-differs", r"LiteralPrefix"),
]
def main():
    prop = sys.argv[1]
    path = os.path.join(VERIF, "known_findings", prop + ".json")
    fixed = []
    if os.path.exists(path):
        fixed = json.load(open(path)).get("fixed", [])
    json.dump({"open": [], "fixed": fixed}, open(path, "w"), indent=1)
    for tf in sys.argv[2:]:
        args = [sys.executable, os.path.join(VERIF, "tools", "accept_findings.py"), prop, tf]
        for name, rx in CLS:
            args += ["--class", "%s=%s" % (name, rx)]
        subprocess.run(args, check=True)
main()
