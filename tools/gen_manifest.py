#!/usr/bin/env python3
"""Writes /verif/MANIFEST.json from the table below (kept in one place so the
manifest stays consistent with what is actually registered)."""
import json
import os

VERIF = os.path.dirname(os.path.dirname(os.path.abspath(__file__)))

E1 = "gosymx"
TECH_E1 = "bounded symbolic execution of the Go SSA (go/ssa interpreter fork with symbolic bytes/ints), branch feasibility and assertions decided by z3, path-coverage closure query, native replay of path models"

CLAIMED = {
    "C01": ("Match/MatchString vs stdlib regexp.Match on every byte string of length <= 3 (quick) / <= 4 (thorough) for each corpus pattern; stdlib regexp is interpreted in the same symbolic run as oracle", "§5 C01"),
    "C02": ("FindIndex/Find/FindString(Index) vs stdlib leftmost-first span, same bounds as C01", "§5 C02"),
    "C03": ("FindSubmatchIndex family vs stdlib capture positions on the capture corpus", "§5 C03"),
    "C04": ("FindAll family, Count, iterators, AppendAllIndex vs stdlib FindAll sequence; limit n symbolic in [-1,3]", "§5 C04"),
    "C05": ("exact worst-case work (executed basic blocks of library code, maximised by exhaustive symbolic exploration over ALL haystacks of length L over a 3-symbol class alphabet) at 0, L, 2L, plus one-symbol runs of 16/32 (32/64) bytes and long runs (128..512, thorough ..1024, copies of one symbol followed by one symbolic byte); asserted: the slope of the work does not grow by more than 1.5x (1.25x on long runs) from one length interval to the next, and work stays within 32x the reference PikeVM per byte", "§5 C05"),
    "C06": ("two concurrent calls (API pairs) on one shared Regex: every interleaving at synchronisation operations with a bounded number of preemptions is explored by the executor, with a vector-clock happens-before monitor on all plain memory accesses and per-call result equality with the sequential result; haystacks symbolic; races are confirmed under the native Go race detector before being reported", "§5 C06"),
    "C07": ("every search API on every byte string within the bound: no panic, no exceeded step budget, result well-formedness predicates, haystack cells unchanged, Find aliases the input; Compile of patterns with a symbolic byte returns normally and later searches are well-formed", "§5 C07"),
    "C09": ("QuoteMeta for every byte string of length <= 3/4; Compile(QuoteMeta(s)) matches exactly s; Compile/CompilePOSIX acceptance, error text and all metadata accessors vs regexp on the Hamming-1 neighbourhood (one symbolic byte per position over a metacharacter alphabet) of a pattern list", "§5 C09"),
    "C08": ("Expand/ExpandString with a symbolic template (<= 3/4 bytes over the template alphabet), ReplaceAll* with symbolic source text and partly symbolic template, Split with symbolic text and symbolic limit n, all vs stdlib", "§5 C08"),
    "C10": ("Longest()/CompilePOSIX results vs stdlib in the same mode; Copy isolation", "§5 C10"),
    "C11": ("internal consistency of all views of one Regex on every byte string within the bound (no oracle)", "§5 C11"),
    "C15": ("anchored byte automaton (NFA compiler in default / sparse-dot / ASCII-only mode, simulated by the PikeVM) and the end-to-end Match vs regexp on ^(?:c)$ for EVERY byte string of length 1..3 (4 thorough): covers the UTF-8 of all runes of those lengths and all ill-formed inputs; large 3- and 4-byte ranges (lead bytes E0/ED/F0..) over the boundary bytes of their encodings at L = 3 / 4", "§5 C15"),
    "C16": ("prefilter.Find vs the naive least-literal-position definition for every haystack within the bound and start offset 0..2; complete prefilters: FindMatch / LiteralLen span vs leftmost-first match of the source alternation; assembly part (asmsym): the SSSE3/AVX2 Teddy kernels parsed from prefilter/*.s for every length 0..Lmax with symbolic contents and masks, every load inside its slice, result equal to (slim) or sound for (fat) the scalar candidate definition", "§5 C16"),
    "C17": ("for every member m of L(p) up to length 3 (4): some extracted prefix/suffix/inner literal occurs in m unless the sequence is empty or flagged partial; also under small extractor limits", "§5 C17"),
    "C18": ("Go level: exported simd primitives (pure-Go SWAR/generic implementations, CPU flags false) vs their one-line scalar definitions with symbolic contents, needles and table bits at lengths straddling the 8- and 16-byte chunk boundaries; assembly level (asmsym, a symbolic executor for the Plan 9 amd64 subset used): the 8 AVX2 kernels of simd/*.s for EVERY length 0..72 (136 thorough, also at base offsets 1 and 31) with symbolic contents and needles, every load proved inside [base, base+len), result equal to the scalar definition on every path, path conditions closed", "§5 C18"),
    "C19": ("each specialised searcher constructed through its own applicability predicate (CharClassSearcher, CompositeSearcher, CompositeSequenceDFA, BranchDispatcher, anchored-literal matcher) and each strategy end-to-end through meta.Engine.FindIndicesAt/IsMatch on the whitelist-boundary corpus P19, vs the reference", "§5 C19"),
    "C12": ("results under a grid of boundary configurations (each Validate() range end, each boolean) vs the default configuration and vs the plain NFA simulation, on every byte string within the bound", "§5 C12"),
    "C13": ("bounded call histories on one value (nondeterministic earlier API, symbolic earlier and final haystacks) vs a fresh value; inductive step over an arbitrary recycled BoundedBacktracker state (invariant + result equality, including generation wrap); lazy-DFA cache reuse under tiny capacities", "§5 C13"),
    "C20": ("capacity invariants of the lazy DFA cache after every search of a bounded history under tiny capacities, visited-table caps of the backtracker, and no growth of the cells reachable from the Regex when the same searches are repeated (executor heap model); the zero-allocation clause is not covered", "§5 C20"),
    "C14": ("PikeVM, BoundedBacktracker, lazy DFA (forward/anchored/earliest/reverse, tiny caches), one-pass DFA driven directly vs stdlib reference or explicit decline", "§5 C14"),
}

NOT_YET = {
}

NA = {
}


def main():
    props = [json.loads(l) for l in open(os.path.join(VERIF, "properties.jsonl"))]
    checks = []
    na = []
    for p in props:
        pid = p["id"]
        if pid in CLAIMED:
            text, ref = CLAIMED[pid]
            eng, tech = E1, TECH_E1
            if isinstance(text, tuple):
                text, eng, tech = text
            checks.append({
                "property_id": pid,
                "quick_cmd": "./check %s --tier quick" % pid,
                "thorough_cmd": "./check %s --tier thorough" % pid,
                "evidence_file": "/verif/evidence/%s.json" % pid,
                "replay_cmd_template": "./check %s --replay {path}" % pid,
                "engine": eng,
                "level_claimed": {
                    "category": "model_checking",
                    "text": "Bounded, solver-decided: " + text + ". Every branch on symbolic data is decided by z3 and every feasible side explored, so within the stated bound (corpus patterns x input lengths) the verdict covers all inputs, not samples; nothing is claimed outside the bound.",
                    "design_ref": ref,
                },
                "level_note": "Trusted: Go toolchain/stdlib (regexp is the oracle), the interpreter fork and its stubs (DESIGN.md Appendix B), z3. Patterns outside the corpus and inputs beyond the bound are outside the claim. Open genuine defects are listed in known_findings/%s.json and printed as KNOWN-FINDING." % pid,
                "technique": tech,
            })
        else:
            na.append({"property_id": pid, "reason": NA.get(pid, NOT_YET.get(pid, "check not yet built in this revision (planned with the same solver-based engine, see DESIGN.md §5); not claimed until it runs clean on the unchanged tree"))})
    man = {
        "version": 1,
        "setup_cmd": "./setup.sh",
        "hooks": {
            "guard": "verif",
            "enable": "none needed: harnesses reach the code through the public API or through go/packages overlays; no source hooks are committed",
            "baseline_off_cmd": "cd /repo && GOFLAGS=-mod=mod GOPROXY=off go test -json -vet=off -count=1 -timeout 25m ./...",
            "source_commits": [],
            "add_only": True,
        },
        "engines": [
            {"name": "gosymx", "path": "/verif/gosymx", "serves_properties": sorted(k for k in CLAIMED), "kind_free_text": "symbolic executor over go/ssa (fork of x/tools go/ssa/interp) + z3 over a pipe; harnesses in /verif/harness; orchestrator tools/runner.py"},
        ],
        "checks": checks,
        "not_applicable": na,
        "notes": "Thorough tiers: props/thorough_ready.txt lists the checks whose deeper tier was run to completion and triaged on the unchanged tree (wall times there are for the build machine, about 2.5 cores); the others run the quick bounds under --tier thorough and say so in the evidence. All claims are bounded (DESIGN.md §4.3): corpus patterns in props/corpus.py, haystack lengths as stated in each evidence file. The sandbox delivers about 2.5 cores of throughput, so quick tiers are sized for a few minutes each. fix: commits in /repo are recorded under 'fixed' in known_findings/*.json.",
    }
    with open(os.path.join(VERIF, "MANIFEST.json"), "w") as f:
        json.dump(man, f, indent=1)
    print("wrote MANIFEST.json: %d checks, %d not_applicable" % (len(checks), len(na)))


if __name__ == "__main__":
    main()
