#!/bin/bash
# revert_check.sh <fix-commit> <check args...>
# Applies the REVERSE of a fix commit of /repo to the working tree (never committed), runs a check that is
# expected to report the defect again (exit 1), and restores the tree. Prints CAUGHT / MISSED / CANNOT-REVERT.
C=$1; shift
cd /verif
git -C /repo diff --quiet || { echo "/repo has local changes"; exit 2; }
git -C /repo diff "$C" "$C~1" > /tmp/revert_$C.diff
if ! git -C /repo apply --3way /tmp/revert_$C.diff 2>/dev/null; then
  git -C /repo reset -q; git -C /repo checkout -q -- .
  echo "CANNOT-REVERT $C (later commits touch the same lines)"; exit 3
fi
git -C /repo reset -q
./check "$@" --no-evidence > /tmp/revert_$C.log 2>&1; rc=$?
git -C /repo checkout -q -- .
n=$(grep -c '^VIOLATION' /tmp/revert_$C.log)
if [ $rc = 1 ] && [ $n -gt 0 ]; then echo "CAUGHT $C by: $* ($n violation lines)"; else echo "MISSED $C by: $* (rc=$rc)"; tail -2 /tmp/revert_$C.log | cut -c1-200; fi
