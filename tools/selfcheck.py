#!/usr/bin/env python3
"""Vacuity / translator self-check run by setup.sh."""
import os
import sys
VERIF = os.path.dirname(os.path.dirname(os.path.abspath(__file__)))
sys.path.insert(0, os.path.join(VERIF, "tools"))
import runner  # noqa

items = [
    {"id": "twin", "Harness": "SELF", "API": "assert-false", "Pattern": "a", "L": 1},
    {"id": "diff", "Harness": "C02", "API": "FindIndex", "Pattern": "a|ab", "L": 2},
]
res = runner.run_items(items, 1, [], 120, progress=False)
twin, diff = res
ok = True
if twin.get("error") or twin.get("outcomes", {}).get("fail", 0) < 1:
    print("selfcheck: Assert(false) twin was NOT reported as violated:", twin.get("error"), twin.get("outcomes"))
    ok = False
if diff.get("error") or diff.get("paths", 0) < 10 or diff.get("closure") != "unsat" or diff.get("outcomes", {}).get("fail", 0) != 0:
    print("selfcheck: differential item unexpected:", diff.get("error"), diff.get("paths"), diff.get("closure"), diff.get("outcomes"))
    ok = False
print("selfcheck", "ok" if ok else "FAILED")
sys.exit(0 if ok else 1)
