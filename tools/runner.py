#!/usr/bin/env python3
"""Orchestrator for gosymx-based checks (DESIGN.md §4.9).

  runner.py <PROP> [--tier quick|thorough] [--workers N] [--triage FILE]
  runner.py <PROP> --replay <violation.json>

Reloads the SSA of /repo's working tree in every worker, rebuilds the native
replay binary from the same tree, distributes the property's work items,
replays path models natively, matches failing paths against the committed
known-finding regions and writes /verif/evidence/<PROP>.json.
"""
import argparse
import importlib
import json
import os
import queue
import shutil
import subprocess
import sys
import tempfile
import threading
import time

VERIF = os.path.dirname(os.path.dirname(os.path.abspath(__file__)))
REPO = os.environ.get("VERIF_REPO", "/repo")
sys.path.insert(0, VERIF)

ITEM_FIELDS = ["Harness", "Pattern", "API", "L", "Pre", "Post", "Alpha", "Mode", "N", "Extra"]


def item_key(it):
    return json.dumps({k: it.get(k, "" if k in ("Harness", "Pattern", "API", "Pre", "Post", "Alpha", "Extra") else 0) for k in ITEM_FIELDS}, sort_keys=True)


def goenv():
    env = dict(os.environ)
    env["GOFLAGS"] = "-mod=mod"
    env["GOPROXY"] = "off"
    env.pop("GOSUMDB", None)
    return env


def build_gosymx():
    out = os.path.join(VERIF, "bin", "gosymx")
    env = goenv()
    env["GOTOOLCHAIN"] = "local"
    env["GOSUMDB"] = "off"
    src_m = max(os.path.getmtime(os.path.join(dp, f)) for dp, _, fs in os.walk(os.path.join(VERIF, "gosymx")) for f in fs)
    if os.path.exists(out) and os.path.getmtime(out) >= src_m:
        return out
    os.makedirs(os.path.dirname(out), exist_ok=True)
    subprocess.run(["go1.26.8", "build", "-o", out, "./cmd/gosymx"], cwd=os.path.join(VERIF, "gosymx"), env=env, check=True)
    return out


def build_replay(tmpdir):
    """Native replay binary built from /repo's current working tree."""
    out = os.path.join(tmpdir, "replay")
    r = subprocess.run(["go", "build", "-o", out, "./cmd/replay"], cwd=os.path.join(VERIF, "harness"), env=goenv(), capture_output=True, text=True)
    if r.returncode != 0:
        raise RuntimeError("native replay build failed (does /repo compile?):\n" + r.stderr)
    return out


class Worker:
    def __init__(self, binpath, extra_args, idx):
        self.idx = idx
        self.args = [binpath, "worker"] + extra_args
        self.proc = None
        self.start()

    def start(self):
        env = dict(os.environ)
        env.setdefault("GOMAXPROCS", "2")
        env.setdefault("GOGC", "100")
        self.proc = subprocess.Popen(self.args, stdin=subprocess.PIPE, stdout=subprocess.PIPE, stderr=subprocess.PIPE, text=True, bufsize=1, env=env)
        self.errbuf = []
        t = threading.Thread(target=self._drain, daemon=True)
        t.start()
        line = self.proc.stdout.readline()
        if "ready" not in line:
            raise RuntimeError("worker failed to start: " + line + "".join(self.errbuf[-20:]))

    def _drain(self):
        for l in self.proc.stderr:
            self.errbuf.append(l)
            if len(self.errbuf) > 200:
                del self.errbuf[:100]

    def run(self, item, timeout):
        """Returns result dict, or {'error': ...} on timeout/crash (worker restarted)."""
        res = {}
        done = threading.Event()

        def target():
            try:
                self.proc.stdin.write(json.dumps(item) + "\n")
                self.proc.stdin.flush()
                line = self.proc.stdout.readline()
                if line:
                    res.update(json.loads(line))
                else:
                    res["error"] = "worker died: " + "".join(self.errbuf[-10:])
            except Exception as e:  # noqa
                res["error"] = "worker io: %r" % (e,)
            done.set()

        th = threading.Thread(target=target, daemon=True)
        th.start()
        if not done.wait(timeout):
            self.kill()
            th.join(5)
            self.start()
            return {"id": item.get("id"), "item": item, "error": "timeout after %ds" % timeout, "timeout": True}
        if "error" in res and res["error"].startswith("worker"):
            self.kill()
            self.start()
        return res

    def kill(self):
        try:
            self.proc.kill()
            self.proc.wait(5)
        except Exception:
            pass

    def close(self):
        try:
            self.proc.stdin.close()
            self.proc.wait(10)
        except Exception:
            self.kill()


def run_items(items, nworkers, worker_args, item_timeout, progress=True):
    binpath = build_gosymx()
    q = queue.Queue()
    for it in items:
        q.put(it)
    results = [None] * len(items)
    index = {it["id"]: i for i, it in enumerate(items)}
    lock = threading.Lock()
    donecount = [0]

    def loop(widx):
        try:
            w = Worker(binpath, worker_args, widx)
        except Exception as e:  # noqa
            sys.stderr.write("worker %d: %s\n" % (widx, e))
            return
        while True:
            try:
                it = q.get_nowait()
            except queue.Empty:
                break
            r = w.run(it, it.get("timeout_s", item_timeout))
            r.setdefault("item", it)
            r.setdefault("id", it["id"])
            with lock:
                results[index[it["id"]]] = r
                donecount[0] += 1
                if progress and (donecount[0] % 20 == 0 or donecount[0] == len(items)):
                    sys.stderr.write("  ... %d/%d items\n" % (donecount[0], len(items)))
        w.close()

    threads = [threading.Thread(target=loop, args=(i,)) for i in range(min(nworkers, max(1, len(items))))]
    for t in threads:
        t.start()
    for t in threads:
        t.join()
    for i, r in enumerate(results):
        if r is None:
            results[i] = {"id": items[i]["id"], "item": items[i], "error": "not run (no worker)"}
    return results


def native_replay(replay_bin, requests, timeout=600):
    """requests: list of {'id','item','cases'}; returns {id: response}."""
    if not requests:
        return {}
    # split over several processes
    nproc = min(8, len(requests))
    chunks = [requests[i::nproc] for i in range(nproc)]
    out = {}

    def one(chunk):
        inp = "".join(json.dumps(r) + "\n" for r in chunk)
        try:
            p = subprocess.run([replay_bin], input=inp, capture_output=True, text=True, timeout=timeout)
            for line in p.stdout.splitlines():
                try:
                    d = json.loads(line)
                    out[d["id"]] = d
                except Exception:
                    pass
            if p.returncode != 0:
                for r in chunk:
                    out.setdefault(r["id"], {"id": r["id"], "error": "replay process exit %d: %s" % (p.returncode, p.stderr[-500:])})
        except subprocess.TimeoutExpired:
            for r in chunk:
                out.setdefault(r["id"], {"id": r["id"], "error": "replay timeout"})

    ths = [threading.Thread(target=one, args=(c,)) for c in chunks]
    for t in ths:
        t.start()
    for t in ths:
        t.join()
    return out


def build_replay_race(tmpdir):
    out = os.path.join(tmpdir, "replay_race")
    r = subprocess.run(["go", "build", "-race", "-o", out, "./cmd/replay"], cwd=os.path.join(VERIF, "harness"), env=goenv(), capture_output=True, text=True)
    if r.returncode != 0:
        raise RuntimeError("race-enabled replay build failed:\n" + r.stderr)
    return out


def race_replay(race_bin, item, model, loops=400, timeout=120):
    """Runs one case under the Go race detector; returns a replay result dict."""
    env = dict(os.environ)
    env["GORACE"] = "halt_on_error=1 exitcode=66"
    env["VERIF_PAR_LOOPS"] = str(loops)
    req = json.dumps({"id": "r", "item": item, "cases": [{"m": model}]}) + "\n"
    try:
        p = subprocess.run([race_bin], input=req, capture_output=True, text=True, timeout=timeout, env=env)
    except subprocess.TimeoutExpired:
        return {"k": "timeout", "msg": "race replay timeout"}
    if p.returncode == 66 or "DATA RACE" in p.stderr:
        lines = [l.strip() for l in p.stderr.splitlines() if l.strip().startswith(("github.com/coregx", "Write at", "Read at", "Previous write", "Previous read"))]
        return {"k": "fail", "msg": "Go race detector: " + " | ".join(lines[:8])[:600]}
    try:
        d = json.loads(p.stdout.splitlines()[0])
        return d["results"][0]
    except Exception:
        return {"k": "error", "msg": p.stderr[-300:]}


def item_fields(it):
    return {k: it[k] for k in ITEM_FIELDS if k in it}


def load_known(prop):
    p = os.path.join(VERIF, "known_findings", prop + ".json")
    if not os.path.exists(p):
        return {"open": [], "fixed": []}
    with open(p) as f:
        return json.load(f)


def main():
    ap = argparse.ArgumentParser()
    ap.add_argument("prop")
    ap.add_argument("--tier", default=os.environ.get("VERIF_TIER", "quick"))
    ap.add_argument("--workers", type=int, default=int(os.environ.get("VERIF_WORKERS", "16")))
    ap.add_argument("--replay")
    ap.add_argument("--triage", help="write failing regions of this run to FILE (never to known_findings)")
    ap.add_argument("--force-tier", action="store_true", help="generate the items of the named tier even if props/thorough_ready.txt does not list the check")
    ap.add_argument("--only", help="substring filter on item ids")
    ap.add_argument("--solver", default="z3")
    ap.add_argument("--no-evidence", action="store_true")
    args = ap.parse_args()
    prop = args.prop
    seed = int(os.environ.get("VERIF_SEED", "0") or 0)
    mod = importlib.import_module("props." + prop)

    if args.replay:
        return do_replay(prop, args.replay)

    t0 = time.time()
    args.item_tier = args.tier
    if args.tier == "thorough" and not args.force_tier and prop not in thorough_ready():
        # The deeper tier of this check has not been run to completion on the unchanged tree (see props/thorough_ready.txt):
        # only bounds that ran clean are registered, so the thorough command explores the quick bounds and says so.
        args.item_tier = "quick"
    items = mod.items(args.item_tier)
    seen_ids = set()
    uniq = []
    for it in items:
        if it["id"] not in seen_ids:
            seen_ids.add(it["id"])
            uniq.append(it)
    items = uniq
    if args.only:
        items = [it for it in items if args.only in it["id"]]
    import random
    random.Random(seed).shuffle(items)
    # longest-first helps load balance
    items.sort(key=lambda it: -it.get("cost", it.get("L", 0)))
    known = load_known(prop)
    kmap = {}
    for e in known.get("open", []):
        kmap.setdefault(item_key(e["key"]), []).append(e)
    for it in items:
        ks = kmap.get(item_key(it), [])
        if ks:
            it["known"] = [e["region"] for e in ks]

    tmpdir = tempfile.mkdtemp(prefix="verif-%s-" % prop)
    try:
        replay_bin = build_replay(tmpdir)
        wargs = ["-solver", args.solver, "-qtimeout", "10000" if args.tier == "quick" else "60000"]
        ov = getattr(mod, "OVERLAY", None)
        if ov:
            ovf = os.path.join(tmpdir, "overlay.json")
            with open(ovf, "w") as f:
                json.dump({k: os.path.join(VERIF, v) for k, v in ov.items()}, f)
            wargs += ["-overlay", ovf]
        item_timeout = getattr(mod, "ITEM_TIMEOUT", {"quick": 240, "thorough": 600}).get(args.tier, 240)
        covdir = os.path.join(tmpdir, "cov")
        os.makedirs(covdir, exist_ok=True)
        wargs += ["-covout", covdir]
        results = run_items(items, args.workers, wargs, item_timeout)
        args.block_cov = merge_cov(covdir)
        race_bin = build_replay_race(tmpdir) if getattr(mod, "RACE_REPLAY", False) else None
        rc = finish(prop, args, mod, items, results, replay_bin, known, kmap, t0, seed, race_bin)
    finally:
        shutil.rmtree(tmpdir, ignore_errors=True)
    return rc


def thorough_ready():
    try:
        with open(os.path.join(VERIF, "props", "thorough_ready.txt")) as f:
            return {l.split()[0] for l in f if l.strip() and not l.startswith("#")}
    except OSError:
        return set()


def merge_cov(covdir):
    """Union of the workers' block-coverage dumps: {func: {file, line, lines, hit}} (hit as a 0/1 string)."""
    out = {}
    for fn in sorted(os.listdir(covdir)):
        try:
            with open(os.path.join(covdir, fn)) as f:
                c = json.load(f)
        except Exception:
            continue
        for name, v in c.items():
            o = out.get(name)
            hit = v.get("hit") or []
            if o is None:
                out[name] = {"file": v.get("file", "").replace(REPO + "/", ""), "line": v.get("line", 0), "lines": v.get("lines") or [], "hit": [bool(h) for h in hit]}
            else:
                for k, h in enumerate(hit):
                    if h and k < len(o["hit"]):
                        o["hit"][k] = True
    return out


def cov_summary(prop, tier, cov, write=True):
    """Per-file totals for the evidence file; the per-block detail goes to evidence/coverage/<prop>.<tier>.json."""
    if not cov:
        return None
    files = {}
    for name, v in cov.items():
        if v["file"].endswith("_test.go") or not v["file"]:
            continue
        a = files.setdefault(v["file"], [0, 0])
        a[0] += sum(1 for h in v["hit"] if h)
        a[1] += len(v["hit"])
    if write:
        d = os.path.join(VERIF, "evidence", "coverage")
        os.makedirs(d, exist_ok=True)
        comp = {n: {"file": v["file"], "line": v["line"], "lines": v["lines"], "hit": "".join("1" if h else "0" for h in v["hit"])} for n, v in sorted(cov.items())}
        with open(os.path.join(d, "%s.%s.json" % (prop, tier)), "w") as f:
            json.dump(comp, f, separators=(",", ":"))
    tot = [sum(a[0] for a in files.values()), sum(a[1] for a in files.values())]
    return {"what": "basic blocks of /repo's packages (go/ssa) executed by the symbolic executor in this run, set-up (real Compile) and harness runs on all paths; detail per block in evidence/coverage/%s.%s.json; tools/coverage.py merges the checks and lists the blocks no check reaches" % (prop, tier),
            "blocks_hit": tot[0], "blocks_total": tot[1],
            "files": {f: "%d/%d" % (a[0], a[1]) for f, a in sorted(files.items()) if a[0]}}


def snaps_equal(a, b):
    a = a or {}
    b = b or {}
    return a == b


def finish(prop, args, mod, items, results, replay_bin, known, kmap, t0, seed, race_bin=None):
    # ---- native replay of sampled paths and of failing paths ----
    reqs = []
    for r in results:
        if r.get("error"):
            continue
        cases = [{"m": s["m"]} for s in r.get("sample", [])]
        nsample = len(cases)
        for f in r.get("fails", []):
            cases.append({"m": f.get("new_model") or f["model"]})
        r["_nsample"] = nsample
        if cases:
            reqs.append({"id": r["id"], "item": item_fields(r["item"]), "cases": cases})
    rep = native_replay(replay_bin, reqs)

    violations = []      # confirmed, not known
    known_hits = {}      # entry index -> count
    discrepancies = []   # engine vs native mismatch on passing paths
    unconfirmed = []     # symbolic failure that does not reproduce natively
    inconclusive = []
    validated = 0
    total_paths = 0
    total_decisions = 0
    items_ok = 0
    nontrivial = 0
    closure_unsat = 0
    closure_other = 0
    stats = {"queries": 0, "cache_hits": 0, "model_hits": 0, "sat": 0, "unsat": 0, "unknown": 0, "errors": 0, "solver_s": 0.0}
    funcs = set()
    reach_tot = {}
    samples = []
    triage = []
    vacuous = []
    outcomes_tot = {}

    for r in results:
        it = r["item"]
        if r.get("error"):
            inconclusive.append({"id": r["id"], "reason": r["error"][:400]})
            continue
        items_ok += 1
        total_paths += r["paths"]
        total_decisions += r.get("stats", {}).get("decided", 0)
        for k, v in r.get("outcomes", {}).items():
            outcomes_tot[k] = outcomes_tot.get(k, 0) + v
        if r["paths"] >= 2:
            nontrivial += 1
        if not r.get("complete"):
            inconclusive.append({"id": r["id"], "reason": "path cap reached after %d paths (bound not exhausted)" % r["paths"]})
        if r.get("closure") == "unsat":
            closure_unsat += 1
        elif r.get("closure") not in ("skipped", None):
            closure_other += 1
            inconclusive.append({"id": r["id"], "reason": "closure query " + str(r.get("closure"))})
        for k in stats:
            stats[k] += r.get("stats", {}).get(k, 0)
        funcs.update(r.get("funcs_sym") or [])
        for k, v in r.get("reach", {}).items():
            reach_tot[k] = reach_tot.get(k, 0) + v
        for inc in r.get("inconclusive", []) or []:
            inconclusive.append({"id": r["id"], "reason": (inc["kind"] + ": " + inc["msg"])[:400], "model": inc.get("model")})
        want_reach = it.get("reach")
        if want_reach:
            for tag in want_reach:
                if r.get("reach", {}).get(tag, 0) == 0:
                    vacuous.append({"id": r["id"], "missing_witness": tag})
        rr = rep.get(r["id"], {})
        nres = rr.get("results", [])
        ns = r.get("_nsample", 0)
        if rr.get("error"):
            inconclusive.append({"id": r["id"], "reason": "native replay: " + rr["error"][:300]})
        # sampled paths
        for s, n in zip(r.get("sample", []), nres[:ns]):
            if race_bin and s["k"] == "fail":
                continue  # schedule-dependent failure: confirmed separately under the race detector
            if s["k"] == n["k"] and snaps_equal(s.get("s"), n.get("s")):
                validated += 1
            elif s["k"] == "ok" and n["k"] in ("fail", "panic"):
                # symbolic run passed but the real build fails: believe the real build
                violations.append({"id": r["id"], "item": item_fields(it), "model": s["m"], "msg": n.get("msg", ""), "snaps": n.get("s"), "source": "native-replay-of-passing-path"})
            elif s["k"] in ("fail", "panic") and n["k"] == s["k"]:
                validated += 1  # snaps differ only by text of panic
            else:
                discrepancies.append({"id": r["id"], "model": s["m"], "symbolic": {"k": s["k"], "s": s.get("s")}, "native": {"k": n["k"], "s": n.get("s"), "msg": n.get("msg", "")[:200]}})
        # failing paths
        ks = kmap.get(item_key(it), [])
        race_budget = 6
        for f, n in zip(r.get("fails", []), nres[ns:]):
            model = f.get("new_model") or f["model"]
            if f.get("known") == "known" and any(e.get("msgs") for e in ks):
                # entries that list the accepted failure messages: another message is a different finding
                if not any(f["msg"] in e.get("msgs", []) for e in ks):
                    f["known"] = "new"
            if race_bin and f["msg"].startswith("C06 data race") and f.get("known") != "known" or (race_bin and args.triage is not None and f["msg"].startswith("C06 data race")):
                key = f["msg"]
                if key not in r.setdefault("_race_cache", {}):
                    if race_budget > 0:
                        race_budget -= 1
                        r["_race_cache"][key] = race_replay(race_bin, item_fields(it), model)
                    else:
                        r["_race_cache"][key] = {"k": "skipped", "msg": "race replay budget exhausted"}
                n = r["_race_cache"][key]
            if args.triage is not None:
                triage.append({"key": item_fields(it), "pc": f["pc"], "model": f["model"], "msg": f["msg"], "snaps": f.get("snaps"), "native": n})
            if f.get("known") == "known":
                for e in ks:
                    known_hits[id(e)] = known_hits.get(id(e), 0) + 1
                continue
            if n["k"] in ("fail", "panic") or (f["kind"] == "step-bound"):
                violations.append({"id": r["id"], "item": item_fields(it), "model": model, "msg": f["msg"], "snaps": n.get("s") or f.get("snaps"), "pc": f["pc"], "source": "symbolic-path"})
            else:
                unconfirmed.append({"id": r["id"], "model": model, "msg": f["msg"], "native": n["k"]})
        if len(samples) < 12 and r.get("sample"):
            s = r["sample"][len(r["sample"]) // 2]
            samples.append({"item": item_fields(it), "model": s["m"], "result": s.get("s"), "outcome": s["k"], "paths_of_item": r["paths"]})

    # ---- additional engine of the property module (e.g. the assembly executor for C18) ----
    extra_info = {}
    if hasattr(mod, "extra_check"):
        ev_v, extra_info = mod.extra_check(args.item_tier)
        for v in ev_v:
            violations.append(v)
        total_paths += extra_info.get("paths", 0)
        total_decisions += extra_info.get("queries", 0)
        validated += extra_info.get("validated", 0)

    # ---- cross-item assertions of the property module (e.g. C05 growth) ----
    post_info = {}
    if hasattr(mod, "post_check"):
        pv, post_info = mod.post_check(results, args.item_tier)
        kn = known.get("open", [])
        for v in pv:
            hit = [e for e in kn if e.get("post") and e["key"].get("Pattern") == v["item"].get("Pattern") and e["key"].get("API") == v["item"].get("API")]
            if hit:
                for e in hit:
                    known_hits[id(e)] = known_hits.get(id(e), 0) + 1
            else:
                violations.append(v)
            if args.triage is not None:
                triage.append({"key": v["item"], "pc": "true", "model": v["model"], "msg": v["msg"], "snaps": v.get("snaps"), "native": {"k": "fail"}, "post": True})

    # ---- report ----
    os.makedirs(os.path.join(VERIF, "evidence", "violations"), exist_ok=True)
    lines = []
    for e in known.get("open", []):
        if known_hits.get(id(e)):
            lines.append("KNOWN-FINDING: property=%s %s" % (prop, e.get("what", json.dumps(e["key"]))))
    # de-duplicate violations per item
    seen = set()
    vio_out = []
    for v in violations:
        k = (v["id"], json.dumps(v["model"], sort_keys=True))
        if k in seen:
            continue
        seen.add(k)
        vio_out.append(v)
    per_item = {}
    vfiles = []
    for v in vio_out:
        per_item.setdefault(v["id"], 0)
        per_item[v["id"]] += 1
        if per_item[v["id"]] > 3:
            continue
        path = os.path.join(VERIF, "evidence", "violations", "%s-%s-%d.json" % (prop, "".join(c if c.isalnum() else "_" for c in v["id"])[:60], per_item[v["id"]]))
        with open(path, "w") as f:
            json.dump({"property": prop, "item": v["item"], "model": v["model"], "msg": v["msg"], "snaps": v.get("snaps"), "pc": v.get("pc"), "source": v["source"]}, f, indent=1)
        vfiles.append(path)
        lines.append("VIOLATION property=%s replay=%s" % (prop, path))
    for l in lines:
        print(l)

    if args.triage is not None:
        with open(args.triage, "w") as f:
            json.dump(triage, f, indent=1)

    wall = time.time() - t0
    extra = getattr(mod, "evidence_extra", lambda tier: {})(args.item_tier)
    if args.item_tier != args.tier:
        extra.setdefault("bounds", {})["tier_note"] = "thorough command run at the quick bounds: the deeper tier of this check is not listed in props/thorough_ready.txt (it was not run to completion on the unchanged tree in the build session)"
    ev = {
        "property_id": prop,
        "tier": args.tier,
        "seed": seed,
        "level": "model_checking",
        "wall_s": round(wall, 2),
        "violations": len(vio_out),
        "coverage": {
            "states": max(total_paths, 0),
            "transitions": max(total_decisions, 0),
            "traces_validated_against_impl": validated,
            "samples": samples or [{"note": "no item produced a path"}],
            "exhaustive": bool(items_ok == len(items) and not inconclusive),
            "items": len(items),
            "items_completed": items_ok,
            "items_nontrivial": nontrivial,
            "path_outcomes": outcomes_tot,
            "closure_queries_unsat": closure_unsat,
            "closure_queries_other": closure_other,
            "queries": stats,
            "solver_time_s": round(stats["solver_s"], 2),
            "reach_witnesses": reach_tot,
            "vacuity_failures": vacuous,
            "known_findings_matched": sum(1 for e in known.get("open", []) if known_hits.get(id(e))),
            "engine_discrepancies": discrepancies[:20],
            "engine_discrepancy_count": len(discrepancies),
            "unconfirmed_symbolic_failures": unconfirmed[:20],
            "inconclusive": inconclusive[:60],
            "inconclusive_count": len(inconclusive),
            "functions_encoded": sorted(funcs)[:400],
            "slowest_items": [{"id": r["id"], "wall_s": round(r.get("wall_s", 0), 1), "paths": r.get("paths", 0)} for r in sorted(results, key=lambda r: -r.get("wall_s", 0))[:8]],
            "explanation": "states = symbolic paths explored (each a solver-characterised set of inputs); transitions = decision points whose feasible alternatives were decided by the SMT solver; traces_validated = path models re-executed on the native build of /repo with identical outcome and result",
        },
        "assumptions": getattr(mod, "ASSUMPTIONS", []) + [
            "Go toolchain, runtime and standard library are trusted; stdlib regexp (interpreted in the same symbolic run) is the oracle where one is used",
            "interpreter stubs of DESIGN.md Appendix B (sync.Pool LIFO model, sequentially consistent atomics, skipped runtime inits, CPU feature flags false => pure-Go paths)",
            "claims hold only for the listed corpus entries and bounds; see coverage.bounds",
        ],
    }
    ev["coverage"].update(extra)
    bc = cov_summary(prop, args.tier, getattr(args, "block_cov", None), write=not args.no_evidence and not args.only)
    if bc:
        ev["coverage"]["block_coverage"] = bc
    if post_info:
        ev["coverage"]["post_check"] = post_info
    if extra_info:
        ev["coverage"]["assembly"] = extra_info
    if not args.no_evidence:
        with open(os.path.join(VERIF, "evidence", prop + ".json"), "w") as f:
            json.dump(ev, f, indent=1)
    sys.stderr.write("%s tier=%s items=%d ok=%d paths=%d decisions=%d validated=%d violations=%d known=%d discrepancies=%d unconfirmed=%d inconclusive=%d vacuous=%d wall=%.1fs\n" % (
        prop, args.tier, len(items), items_ok, total_paths, total_decisions, validated, len(vio_out), ev["coverage"]["known_findings_matched"], len(discrepancies), len(unconfirmed), len(inconclusive), len(vacuous), wall))
    return 1 if vio_out else 0


def do_replay(prop, path):
    with open(path) as f:
        v = json.load(f)
    if v.get("item", {}).get("asm"):
        mod = importlib.import_module("props." + prop)
        vs, info = mod.extra_check("quick", only=v["item"]["kernel"])
        print(json.dumps({"kernel": v["item"]["kernel"], "result": info.get("kernels")}, indent=1))
        if vs:
            print("VIOLATION property=%s replay=%s" % (prop, path))
            return 1
        return 0
    tmpdir = tempfile.mkdtemp(prefix="verif-replay-")
    try:
        rb = build_replay(tmpdir)
        rep = native_replay(rb, [{"id": "r", "item": v["item"], "cases": [{"m": v["model"]}]}])
        r = rep.get("r", {})
        print(json.dumps({"item": v["item"], "model": v["model"], "native": r}, indent=1))
        res = (r.get("results") or [{}])[0]
        if res.get("k") in ("fail", "panic"):
            print("VIOLATION property=%s replay=%s" % (prop, path))
            return 1
        return 0
    finally:
        shutil.rmtree(tmpdir, ignore_errors=True)


if __name__ == "__main__":
    sys.exit(main())
