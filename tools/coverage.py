#!/usr/bin/env python3
"""Merge the block-coverage dumps of the checks (evidence/coverage/<ID>.<tier>.json) and report what no check reaches.

  tools/coverage.py                      per-file totals over all checks
  tools/coverage.py --file meta/strategy.go     uncovered blocks of one file with their source lines
  tools/coverage.py --func SelectStrategy       the same for functions whose name contains the string
  tools/coverage.py --never                     functions never entered by any check
  tools/coverage.py --ids C01,C02 --tier quick  restrict the dumps that are merged

A block is a go/ssa basic block of a function in github.com/coregx/*; "hit" means the symbolic executor ran it
on at least one path of at least one item (set-up = the real Compile included). The report is the map of blind
spots of the pattern corpus: a change inside a block that no item executes cannot be seen by any check.
"""
import argparse
import glob
import json
import os
import sys

VERIF = os.path.dirname(os.path.dirname(os.path.abspath(__file__)))
REPO = os.environ.get("VERIF_REPO", "/repo")


def load(ids=None, tier=None):
    merged = {}
    used = []
    for f in sorted(glob.glob(os.path.join(VERIF, "evidence", "coverage", "*.json"))):
        base = os.path.basename(f)[:-5]
        pid, t = base.split(".", 1)
        if ids and pid not in ids:
            continue
        if tier and t != tier:
            continue
        used.append(base)
        with open(f) as fh:
            c = json.load(fh)
        for name, v in c.items():
            o = merged.get(name)
            if o is None:
                merged[name] = {"file": v["file"], "line": v["line"], "lines": v["lines"], "hit": [ch == "1" for ch in v["hit"]], "by": {pid} if "1" in v["hit"] else set()}
            else:
                for k, ch in enumerate(v["hit"]):
                    if ch == "1" and k < len(o["hit"]):
                        o["hit"][k] = True
                if "1" in v["hit"]:
                    o["by"].add(pid)
    return merged, used


def main():
    ap = argparse.ArgumentParser()
    ap.add_argument("--file")
    ap.add_argument("--func")
    ap.add_argument("--never", action="store_true")
    ap.add_argument("--ids")
    ap.add_argument("--tier")
    ap.add_argument("--json")
    a = ap.parse_args()
    cov, used = load(set(a.ids.split(",")) if a.ids else None, a.tier)
    if not cov:
        print("no coverage dumps under evidence/coverage (run the checks first)")
        return 1
    cov = {n: v for n, v in cov.items() if v["file"] and not v["file"].endswith("_test.go")}
    print("merged: %s" % " ".join(used))
    if a.json:
        with open(a.json, "w") as f:
            json.dump({n: {"file": v["file"], "line": v["line"], "hit": sum(v["hit"]), "blocks": len(v["hit"]), "uncovered_lines": sorted({l for l, h in zip(v["lines"], v["hit"]) if not h and l})} for n, v in cov.items()}, f, indent=1)
    if a.never:
        for n, v in sorted(cov.items(), key=lambda x: (x[1]["file"], x[1]["line"])):
            if not any(v["hit"]):
                print("%s:%d  %s  (%d blocks)" % (v["file"], v["line"], n, len(v["hit"])))
        return 0
    if a.file or a.func:
        src = {}
        for n, v in sorted(cov.items(), key=lambda x: (x[1]["file"], x[1]["line"])):
            if a.file and v["file"] != a.file:
                continue
            if a.func and a.func not in n:
                continue
            miss = sorted({l for l, h in zip(v["lines"], v["hit"]) if not h and l})
            print("%s:%d %s  %d/%d blocks%s" % (v["file"], v["line"], n, sum(v["hit"]), len(v["hit"]), "" if any(v["hit"]) else "  NEVER ENTERED"))
            if not miss or not any(v["hit"]):
                continue
            if v["file"] not in src:
                try:
                    src[v["file"]] = open(os.path.join(REPO, v["file"])).read().split("\n")
                except Exception:
                    src[v["file"]] = []
            for l in miss:
                text = src[v["file"]][l - 1].strip() if 0 < l <= len(src[v["file"]]) else ""
                print("      %5d  %s" % (l, text[:110]))
        return 0
    files = {}
    for n, v in cov.items():
        f = files.setdefault(v["file"], [0, 0, 0, 0])
        f[0] += sum(v["hit"])
        f[1] += len(v["hit"])
        f[2] += 1 if any(v["hit"]) else 0
        f[3] += 1
    th = sum(f[0] for f in files.values())
    tt = sum(f[1] for f in files.values())
    print("%-40s %12s %12s" % ("file", "blocks", "functions"))
    for fn, f in sorted(files.items()):
        print("%-40s %5d/%-6d %5d/%-5d %3d%%" % (fn, f[0], f[1], f[2], f[3], 100 * f[0] // max(1, f[1])))
    print("%-40s %5d/%-6d %3d%%" % ("TOTAL", th, tt, 100 * th // max(1, tt)))
    return 0


if __name__ == "__main__":
    sys.exit(main())
