#!/bin/sh
# Builds the framework from files on disk only (offline).
set -e
cd "$(dirname "$0")"
export GOFLAGS=-mod=mod GOPROXY=off
mkdir -p bin evidence/violations
(cd gosymx && GOTOOLCHAIN=local GOSUMDB=off go1.26.8 build -o ../bin/gosymx ./cmd/gosymx)
(cd harness && go build -o ../bin/replay ./cmd/replay && go build -o ../bin/strategy ./cmd/strategy && go vet ./hz ./verif)
# translator self-check: a harness whose assertion is false must come back violated,
# and a tiny differential item must explore >1 path with an unsat closure query.
python3 tools/selfcheck.py
echo "setup ok"
